package version

// Stand-in for the generated, git-ignored version/version.go (what `go generate`
// writes): injected with `go build -overlay`, /repo itself is not touched.
const SemrelVersion = "0.0.0-verif"
