"""Per-property check specifications used by /verif/check."""

HIST_ASSUME = [
    "SQLite backend (mattn cgo driver) only; PostgreSQL paths are not executed",
    "virtual time from testing/synctest (go1.26.8); the repo pins go1.24.1",
    "reference model in /verif/harness/hist is the contract (DESIGN.md section 4A)",
    "sequential client: operations of one history never overlap (concurrency is covered by C04/C10/C11/C12 checks)",
]

def hist(test, rule, **kw):
    d = dict(binary="rigv", pkg="rigv", test=test, level="exploration", rule=rule, assumptions=HIST_ASSUME,
             shards={"quick": 16, "thorough": 16}, min_relevant={"quick": 50, "thorough": 500})
    d.update(kw)
    return d

SPECS = {
    "C01": hist("TestC01",
        "seeded adaptive histories (profiles loss, loss-long) over the real handlers in virtual time, each ending in a drain; "
        "a case is non-trivial if at least one 'must be offered' assertion (probe pull / idle stream / drain with a certainly "
        "deliverable message) was evaluated; distinct = distinct hash of the (operation, reply) trace"),
}
