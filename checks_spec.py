"""Per-property check specifications used by /verif/check."""

HIST_ASSUME = [
    "SQLite backend (mattn cgo driver) only; PostgreSQL paths are not executed",
    "virtual time from testing/synctest (go1.26.8); the repo pins go1.24.1",
    "reference model in /verif/harness/hist is the contract (DESIGN.md section 4A)",
    "sequential client: operations of one history never overlap (concurrency is covered by C04/C10/C11/C12 checks)",
]

def hist(test, rule, **kw):
    d = dict(binary="rigv", pkg="rigv", test=test, level="exploration", rule=rule, assumptions=HIST_ASSUME,
             shards={"quick": 16, "thorough": 16}, min_relevant={"quick": 50, "thorough": 500})
    d.update(kw)
    return d

SPECS = {
    "C01": hist("TestC01",
        "seeded adaptive histories (profiles loss, loss-long) over the real handlers in virtual time, each ending in a drain; "
        "a case is non-trivial if at least one 'must be offered' assertion (probe pull / idle stream / drain with a certainly "
        "deliverable message) was evaluated; distinct = distinct hash of the (operation, reply) trace"),
}

_H = "seeded adaptive histories (profile(s) %s) over the real handlers in virtual time, checked step by step against the reference model and ended by a drain; a case is non-trivial if %s; distinct = distinct hash of the (operation, reply) trace"
SPECS.update({
    "C02": hist("TestC02", _H % ("content, independence", "at least one delivery was compared field by field with what was published")),
    "C03": hist("TestC03", _H % ("ack", "at least one acknowledgement took effect or a stale/duplicate/unknown id was sent")),
    "C04": hist("TestC04", _H % ("lease, lease-default", "at least one redelivery (attempt >= 2) was observed and placed against its lease window")),
    "C05": hist("TestC05", _H % ("order, order-dl, order-seek-retention", "a keyed message was delivered on an ordered subscription after an earlier same-key message had been settled")),
    "C06": hist("TestC06", _H % ("deadletter", "at least one delivery reached its max_delivery_attempts and had to be forwarded")),
    "C13": hist("TestC13", _H % ("seek", "a seek acknowledged or revived at least one delivery")),
    "C14": hist("TestC14", _H % ("retention", "a subscription expired, a retention deadline passed with a message outstanding, or a delivery delay was observed")),
})
