"""Per-property check specifications used by /verif/check."""

HIST_ASSUME = [
    "SQLite backend (mattn cgo driver) only; PostgreSQL paths are not executed",
    "virtual time from testing/synctest (go1.26.8); the repo pins go1.24.1",
    "reference model in /verif/harness/hist is the contract (DESIGN.md section 4A)",
    "sequential client: operations of one history never overlap (concurrency is covered by C04/C10/C11/C12 checks)",
]

def hist(test, rule, **kw):
    d = dict(binary="rigv", pkg="rigv", test=test, level="exploration", rule=rule, assumptions=HIST_ASSUME,
             shards={"quick": 16, "thorough": 16}, min_relevant={"quick": 50, "thorough": 500})
    d.update(kw)
    return d

SPECS = {
    "C01": hist("TestC01",
        "seeded adaptive histories (profiles loss, loss-long) over the real handlers in virtual time, each ending in a drain; "
        "a case is non-trivial if at least one 'must be offered' assertion (probe pull / idle stream / drain with a certainly "
        "deliverable message) was evaluated; distinct = distinct hash of the (operation, reply) trace"),
}

_H = "seeded adaptive histories (profile(s) %s) over the real handlers in virtual time, checked step by step against the reference model and ended by a drain; a case is non-trivial if %s; distinct = distinct hash of the (operation, reply) trace"
SPECS.update({
    "C02": hist("TestC02", _H % ("content, independence", "at least one delivery was compared field by field with what was published")),
    "C03": hist("TestC03", _H % ("ack", "at least one acknowledgement took effect or a stale/duplicate/unknown id was sent")),
    "C04": dict(level="exploration", assumptions=HIST_ASSUME[:3] + ["concurrent pullers are interleaved at transaction boundaries by random virtual delays (SQLite immediate transactions admit no finer interleaving); PostgreSQL SKIP LOCKED is not executed"],
        min_relevant={"quick": 50, "thorough": 500},
        rule=(_H % ("lease, lease-default", "at least one redelivery (attempt >= 2) was observed and placed against its lease window")) + "; plus a scheduled part: 2-4 concurrent pullers of one subscription over 3 rounds with random limits and random virtual delays at their transaction boundaries - no ack id twice within a lease, consecutive attempt numbers, union = min(sum of limits, due messages)",
        parts=[dict(name="hist", binary="rigv", pkg="rigv", test="TestC04", shards={"quick": 16, "thorough": 16}),
               dict(name="conc", binary="rigv", pkg="rigv", test="TestC04conc", race=True, shards={"quick": 8, "thorough": 16})]),
    "C05": hist("TestC05", _H % ("order, order-dl, order-seek-retention", "a keyed message was delivered on an ordered subscription after an earlier same-key message had been settled")),
    "C06": dict(level="exploration", assumptions=HIST_ASSUME, min_relevant={"quick": 50, "thorough": 500},
        rule=(_H % ("deadletter", "at least one delivery reached its max_delivery_attempts and had to be forwarded")) + "; plus a service part: the real dead-letter service (services/deadletter.go, own ticker / batch size / catch-up reschedule, virtual time, -race) next to planned pull rounds (per message: k of N deliveries, then ack / lease held / lease lapses); after the last round nobody pulls the source: every unacknowledged message with N deliveries must arrive exactly once, intact, on every matching dead-letter subscription within a bound computed from the service settings, nothing else may arrive (acknowledged, fewer than N deliveries, filtered out), held messages stay deliverable on the source with the next attempt number while the service keeps sweeping",
        parts=[dict(name="hist", binary="rigv", pkg="rigv", test="TestC06", shards={"quick": 16, "thorough": 16}),
               dict(name="svc", binary="rigv", pkg="rigv", test="TestC06svc", race=True, shards={"quick": 8, "thorough": 16})]),
    "C13": hist("TestC13", _H % ("seek", "a seek acknowledged or revived at least one delivery")),
    "C14": dict(level="exploration", assumptions=HIST_ASSUME, min_relevant={"quick": 50, "thorough": 500},
        rule=(_H % ("retention", "a subscription expired, a retention deadline passed with a message outstanding, or a delivery delay was observed")) + "; plus a service part: the real, long-lived subscription-expiry service (one action object for the life of the process, own ticker, virtual time, -race) is started first, then 2-5 subscriptions with TTLs of 1-10 minutes are created and left idle, kept busy with empty pulls, or kept busy and then abandoned; every 7 virtual seconds each must be alive while its deadline (last activity + TTL) is more than a second ahead and gone once the deadline plus (k+2) x (interval + fuzz) + 5 s has passed, and an expired one must answer NotFound to Pull",
        parts=[dict(name="hist", binary="rigv", pkg="rigv", test="TestC14", shards={"quick": 16, "thorough": 16}),
               dict(name="svc", binary="rigv", pkg="rigv", test="TestC14svc", race=True, shards={"quick": 8, "thorough": 16})]),
})

PURE_ASSUME = [
    "reference lexer/recognizer/evaluator in /verif/harness/ref is the documented Pub/Sub filter language; `!=` on an absent attribute and bare keyword-named attributes are treated as unspecified and not compared",
    "inputs are built from tokens, so whitespace/comment lexing of text/scanner is outside the compared domain (raw strings are only checked for totality, determinism and round trip)",
]
SPECS.update({
    "C07": dict(level="exploration", exhaustive=True, assumptions=PURE_ASSUME, min_relevant={"quick": 100000, "thorough": 1000000},
        rule="differential: real filter.Parser+Evaluate vs independent three-valued reference evaluator. Enumerated completely: every basic expression over a 15-name x 11-value vocabulary (with NOT, '-', quoted-name variants) x all single-attribute maps, and every two-term AND/OR over 60 core terms x all 125 attribute maps over 3 names (thorough: also every three-term chain); plus seeded nested ASTs up to depth 3 in 2-3 concrete syntaxes, and 7 boolean laws on the real evaluator. distinct_nontrivial = distinct (filter text) cases on which all maps were compared; a case is non-trivial when at least one definite comparison was made.",
        parts=[dict(name="sem", binary="rigu", pkg="rigu", test="TestC07", race=True, shards={"quick": 16, "thorough": 16}),
               dict(name="e2e", binary="rigv", pkg="rigv", test="TestC07e2e", shards={"quick": 4, "thorough": 16})]),
    "C08": dict(level="exploration", assumptions=PURE_ASSUME, min_relevant={"quick": 50000, "thorough": 500000},
        rule="differential acceptance: grammar-generated sentences (all basics over the wide vocabulary incl. every quoting form, seeded nested ASTs) must be accepted; every single-token deletion / substitution / insertion from an 18-token vocabulary is compared with the token-level reference recognizer; every accepted input is printed with AsFilter, re-parsed, compared by truth table over 125 maps and re-printed; raw strings from a hostile alphabet are checked for totality (20 s wall-clock hang bound), determinism and round trip; the RPC part sends the same strings to CreateSubscription/UpdateSubscription. distinct_nontrivial = distinct inputs the reference rejects (plus generated sentences).",
        parts=[dict(name="syn", binary="rigu", pkg="rigu", test="TestC08", race=False, shards={"quick": 16, "thorough": 16}),
               dict(name="rpc", binary="rigv", pkg="rigv", test="TestC08rpc", shards={"quick": 4, "thorough": 8})]),
})

SPECS["C09"] = dict(binary="rigv", pkg="rigv", test="TestC09", level="fault_enumeration", exhaustive=True,
    shards={"quick": 16, "thorough": 16}, min_relevant={"quick": 300, "thorough": 1000},
    assumptions=["SQLite's own atomic commit is trusted (no torn writes / power loss)", "faults are injected at the database/sql driver seam: BEGIN, each exec/query, COMMIT of the operation's own statements (actor-scoped)",
                 "documented tolerance: a failed pull-family operation may have refreshed subscriptions.expires_at (the idle clock is written in its own first transaction)"],
    rule="fault enumeration: for each of 33 mutating operations (publish 1/batch, create/update/delete topic and subscription, modify push config, ack, ack of ordered predecessor, modack +/0 across subscriptions, NackDeliveries with dead-lettering, pull plain/ordered/dead-letter-due/empty, stream ack+nack, seek to time x2 / snapshot, create/delete snapshot, dead-letter sweep, delay-injector PUT, 7 jobs through runOnce) in 2 (quick) or 24 (thorough) prepared states: for every statement index k=1..n (BEGIN, each statement, COMMIT) fail statement k with a driver error, and again cancelling the request context at k, on the same database; then the fault-free retry, compared with a fault-free twin. One case = one (operation, state, k, mode) fault point that was actually hit; all are non-trivial and distinct by construction.")

SCHED_ASSUME = [
    "interleavings are explored at transaction boundaries (before BEGIN / after COMMIT), the only points where SQLite with immediate transactions lets two actors interleave; PostgreSQL row-lock interleavings and cross-process LISTEN/NOTIFY are not executed",
    "quiescence (testing/synctest.Wait) in virtual time is the progress oracle; no wall-clock deadline decides a verdict",
]
SPECS["C10"] = dict(level="exploration", assumptions=SCHED_ASSUME, min_relevant={"quick": 200, "thorough": 2000},
    rule="schedule grid: 9 writer scenarios (publish to 1/3 subscriptions, zero-deadline ModifyAckDeadline with ids spanning 2-3 subscriptions in both id orders, ack of an ordered predecessor, dead-lettering of an ordered predecessor by nack, dead-letter forward into the waiter's topic by pull/sweep/nack, seek to time/snapshot that revives, seek to snapshot/time that only acknowledges the leased predecessor of a blocked same-key message, two unary pullers sharing one subscription with a late-started second puller and three publishes) x variants (which subscription(s) wait, fresh vs warm notifier state) x writer start offset (k+1/2)*D for k=-1..6 against a waiter delayed D at each of its own transaction boundaries x commit->notify delay {0,D} x waiter kind {Pull, StreamingPull}. Oracle: after the writer returned, at quiescence and after at most the scheduled delays, the waiter has returned a message. Non-trivial = the waiter was blocked when the writer started; distinct = distinct (scenario, boundary-event order, waiter kind).",
    parts=[dict(name="grid", binary="rigv", pkg="rigv", test="TestC10", race=True, shards={"quick": 16, "thorough": 16})])

SPECS["C11"] = dict(level="exploration", assumptions=SCHED_ASSUME + ["the client-side ledger counts a message as settled when the client sent its ack/nack on the stream, or when an external Acknowledge returned; a lapsed lease counts as settled for the bound and as still occupying its slot for the no-stall check (the sound side in both cases)"],
    min_relevant={"quick": 300, "thorough": 3000},
    rule="seeded stream scripts: flow control max_outstanding_messages in {1,2,3,10,1000,default} x max_outstanding_bytes in {default,30,50,120,300} x message size mixes; actions {stream ack, stream nack (zero deadline), stream deadline extension, external Acknowledge, publish, lease-lapse (messages handed out by a unary pull before the stream opened become deliverable again purely by time passing; checked as bounded progress: sent within 70 virtual seconds)} - a fifth of the cases start in the byte-bound shape (something outstanding, a due message too big for the rest of the budget, a small one leased elsewhere) - with random virtual delays at the stream's transaction boundaries and sends. Monitors: outstanding-count / byte ledger evaluated synchronously at every Send; at quiescence after every capacity-freeing action, 'free slot + fitting deliverable message => it was sent'. Non-trivial = the stream reached its message limit at least once; distinct = distinct (limits, sizes, action script).",
    parts=[dict(name="flow", binary="rigv", pkg="rigv", test="TestC11", race=True, shards={"quick": 16, "thorough": 16})])

SPECS["C12"] = dict(level="exploration", assumptions=HIST_ASSUME[:2] + ["'exactly that project' is decided by byte-wise string prefix in the reference, so SQL LIKE semantics of the implementation are on trial", "racing creators are interleaved at transaction boundaries only (SQLite immediate transactions)"],
    min_relevant={"quick": 2000, "thorough": 20000},
    rule="seeded histories of 40-130 create / delete / re-create / get / publish / pull / list operations over topics, subscriptions and snapshots in projects and ids that differ by case, prefix and LIKE wildcards (p, P, pq, p_, p%, unicode, blank), every List walked to exhaustion with page sizes {1,2,3,7,100,0,-1} and compared as a multiset with the model's live set of exactly that project; re-created subscriptions are checked for inherited labels/filter/ordering/backlog; plus groups of 2-4 racing creators of one name (topic, subscription, snapshot) under -race. Non-trivial = history with more than 10 answered operations; distinct = distinct operation/answer trace.",
    parts=[dict(name="names", binary="rigv", pkg="rigv", test="TestC12", shards={"quick": 16, "thorough": 16}),
           dict(name="race", binary="rigv", pkg="rigv", test="TestC12race", race=True, shards={"quick": 8, "thorough": 16})])

SPECS["C15"] = dict(binary="rigv", pkg="rigv", test="TestC15", level="exploration", assumptions=HIST_ASSUME, parts=[
        dict(name="jobs", binary="rigv", pkg="rigv", test="TestC15", shards={"quick": 16, "thorough": 16}),
        dict(name="svc", binary="rigv", pkg="rigv", test="TestC15svc", race=True, shards={"quick": 8, "thorough": 16}),
        dict(name="stream", binary="rigv", pkg="rigv", test="TestC15stream", race=True, shards={"quick": 8, "thorough": 16})],
    rule= "three monitors over seeded histories: (a) every prune/expire job (min age 0 / 1 s / 1 h, batch 1 / 2 / 100, spliced at random positions) is followed by a full table diff checked against the job's documented deletion criterion; (b) twin pairs - the same seeded history (probe-sized pulls, no seeks) run with the prune jobs skipped and with them executed must give identical client-visible traces (operation, status, message ids, attempts); (c) after everything was deleted and 8 days passed, rows+2 rounds of all jobs in random order must leave no delivery, message, or soft-deleted row behind and no failing job. (d) twin pairs with the real prune *service loops* (services/prune-common.go Start, own tickers in virtual time, min age 2 s, batch 3) running in the background versus not running. Non-trivial = at least one row was deleted by a job; distinct = distinct operation trace.",
    min_relevant={"quick": 200, "thorough": 2000})

SPECS["C16"] = dict(level="exploration", server=True, server_race_thorough=True, min_relevant={"quick": 400, "thorough": 4000},
    assumptions=["crash / wedge / 'answered with a status' is decided only on the real cmd/mmmbbb binary with its production interceptor chain (child process, gRPC over loopback TCP)",
                 "'an error reply changes nothing' is decided in-process on the same generated requests with no background service running, by table-dump equality (a failed Pull may have refreshed subscriptions.expires_at)",
                 "strings are valid UTF-8 (gRPC refuses anything else before the server sees it)"],
    rule="per-field boundary domains on every implemented RPC and the three unimplemented ones: names (live / unknown / wrong kind / empty / 5 segments / empty project / empty id / garbage / very long), 32-bit integers (min, -1, 0, 1, max), durations (nil, negative, huge negative, zero, 1 ns, 10^4 years, invalid nanos, max), ack-id lists (live, stale, foreign, garbage, empty string, empty, mixed, unknown, duplicate), update masks (nil, empty, unknown, repeated, every known path with an empty body), optional blocks absent/empty, seek targets, payloads, page sizes/tokens: all single-field deviations from a valid base request plus seeded pairwise merges; 12 StreamingPull scripts. One case = one request; non-trivial = it deviates from the valid base; distinct = distinct (rpc, field, class).",
    parts=[dict(name="binary", binary="rigp", pkg="rigp", test="TestC16", shards={"quick": 8, "thorough": 16}),
           dict(name="state", binary="rigv", pkg="rigv", test="TestC16state", shards={"quick": 8, "thorough": 16})])

SPECS["C17"] = dict(level="exploration", assumptions=["SQLite stores durations as Go duration text (exact to the nanosecond); the PostgreSQL `interval` column path is exercised only through the codec's text parser, against a reference printer of PostgreSQL's 'postgres' IntervalStyle (months = 0)", "strings with months/years are only checked for deterministic parsing (30-day months / 365-day years are the code's own convention)"],
    min_relevant={"quick": 5000, "thorough": 100000},
    rule="(1) request-side model: subscriptions created with random accepted configurations (durations 1 ns .. 73 years incl. sub-microsecond values, label maps incl. empty/unicode, optional blocks present / absent / empty, defaults) are read back through the create response, Get and List and compared field by field; then sequences of 1-6 UpdateSubscription calls, each with a random 1-3 path mask and a body that carries NEW values for ALL fields: exactly the masked fields may change. (2) codec: Scan(Value(d)) == d for a grid plus seeded random durations, and ParsePostgreSQLInterval(reference PostgreSQL text for (days, microseconds)) == days*24h + microseconds for a grid plus seeded random pairs. Non-trivial: every case; distinct = distinct history / value.",
    parts=[dict(name="config", binary="rigv", pkg="rigv", test="TestC17", shards={"quick": 8, "thorough": 16}),
           dict(name="codec", binary="rigu", pkg="rigu", test="TestC17codec", race=False, shards={"quick": 4, "thorough": 16})])

SPECS["C18"] = dict(level="exploration", server=True, assumptions=["schedules are whatever the Go scheduler produces on 16 cores for spin-started goroutines (thousands of trials); the race detector watches every trial", "with several overlapping descriptions the exact total is only defined when every matching call matches all of them: such trials use calls whose parameters are a superset of every description"],
    min_relevant={"quick": 500, "thorough": 10000},
    rule="thousands of trials: a fresh fault Set, 1-3 descriptions for one operation (counts 0,1,2,7,64,MaxInt64; parameter subsets incl. empty/nil), 1/2/10/64 callers released together, a mix of matching and non-matching calls; after all returned: #failed calls == min(sum of counts, #matching calls), each description fired <= its count, non-matching calls and other operations never fail, Current() (after the asynchronous prune settled) lists exactly the remaining counts. Plus the gRPC unary interceptor with real protobuf requests under both field-name forms; the server-streaming interceptor over a scripted stream (one description for the start / :RecvMsg / :SendMsg operation, 13 parameter shapes incl. full field names and a JSON-name mismatch, counts 0..MaxInt64, 1-24 concurrent streams: failed starts, receives and sends are each compared with min(count, matching operations), OnFault runs and the remaining listing too); and an end-to-end part on the real binary: POST /faults/inject, 1-32 concurrent gRPC callers, GET /faults. Non-trivial = more than one concurrent caller; relevant = trials with more matching callers than the total count (contended last decrement).",
    parts=[dict(name="set", binary="rigu", pkg="rigu", test="TestC18", race=True, shards={"quick": 16, "thorough": 16}),
           dict(name="http", binary="rigp", pkg="rigp", test="TestC18http", shards={"quick": 2, "thorough": 8})])

SPECS["C19"] = dict(level="exploration", assumptions=SCHED_ASSUME[1:] + ["the endpoint is an in-memory http.RoundTripper inside the bubble, so HTTP/1.1 framing and 1xx handling of net/http are not in the loop (a scripted 102 is observed as a final status, as the statement allows)", "in-flight bound: min(1000, 1 + success replies already sent) - a sound upper bound of the adaptive window"],
    min_relevant={"quick": 1000, "thorough": 20000},
    rule="the real HttpPushStreamer (actions.NewHttpPusher) runs in virtual time against a scripted endpoint; scripts: all fast success, all slow (>= 1 s) success, alternating 500/204, bursts of 1-3 failures per message drawn from {transport error, 400, 404, 429, 500, 503} fast or slow, one final status per message walking 100..599, and a ramp of 60-120 messages; payload/attribute/key domains as in C02. Every request is checked against the documented envelope and the ledger: attempt numbering, never again after a success reply, never while a push of the same message is in flight, never before the backoff after a failure, retried within 10 virtual minutes, in-flight within the window bound, completed deliveries == success replies. Plus a supervisor part: the real http-pusher service (services/http-push.go) runs in the bubble with http.DefaultTransport scripted, over random histories of create (pull / push A / push B), ModifyPushConfig (set / change / clear) and delete; after each step a published message must be POSTed exactly once to exactly the configured endpoint (or nowhere). Non-trivial = at least one re-push (or a slow / ramp script); distinct = distinct (script, size, status set, push count).",
    parts=[dict(name="push", binary="rigv", pkg="rigv", test="TestC19", race=True, shards={"quick": 16, "thorough": 16}),
           dict(name="svc", binary="rigv", pkg="rigv", test="TestC19svc", race=True, shards={"quick": 4, "thorough": 8})])
