HOOK_COMMITS = ["bd7042a"]

_HIST_NOTE = ("Trusted base: the reference model and generator in harness/hist (written from the property statements; DESIGN.md 4A), "
              "testing/synctest's fake clock, SQLite's atomic commit. Only the SQLite backend and sequential client histories are executed; "
              "model-unspecified situations (listed in DESIGN.md 3.4) are excluded from verdicts and counted in evidence as wild_*.")

TEXT = {
 "C01": dict(technique="reference-model monitor over recorded client-boundary histories (MUST/MAY sets), forced drain, virtual time",
   text="Exploration: hundreds (quick) to tens of thousands (thorough) of seeded adaptive histories of 90-220 operations drive the real Publisher/Subscriber handlers in virtual time; after every pull, stream fetch and in a final drain the model demands every message that must certainly be deliverable. Held = no accepted message went missing on any explored history; not a proof over all histories.",
   note=_HIST_NOTE),
 "C02": dict(technique="reference-model monitor: per-response content/ownership/size checks and sibling-interference attribution",
   text="Exploration: every received message of every explored history is compared field by field (payload as JSON value, attributes, key, id, publish time, attempt) with what Publish accepted, responses are checked against max_messages / duplicates / the MAY set, and a deviation on one subscription right after a deliberate operation on a sibling is attributed to independence. Rich payload/attribute domains.",
   note=_HIST_NOTE),
 "C03": dict(technique="reference-model monitor: 'acked => never again unless rewound' ledger under stale/duplicate/foreign/late operations",
   text="Exploration: ack-heavy histories (unary and streaming acks, including streaming acks of ids handed out elsewhere, double acks, unknown ids, nack/modack after ack, NackDeliveries on settled ids, lease lapses, sweeps, prune jobs) with a ledger in which 'acked' is absorbing except through Seek.",
   note=_HIST_NOTE),
 "C04": dict(technique="lease ledger in virtual time against an independently computed backoff window",
   text="Exploration: every redelivery observed (tens of thousands per quick run, up to backoff saturation) is placed against the window [nominal, nominal+1s) computed by an independent formula, attempt numbers must increase by exactly one, positive modack may only postpone, zero makes due, NackDeliveries reschedules by the backoff. Concurrent pullers are covered by a separate scheduled part.",
   note=_HIST_NOTE),
 "C05": dict(technique="per-key order ledger over histories on ordered subscriptions",
   text="Exploration: histories mixing keys, un-keyed traffic, batches, acks in any order, lease lapses, retention changes, dead-lettering, seeks and prune jobs; a delivery of m while an earlier same-key message is outstanding (per the model) is a violation. Two shapes are genuine defects recorded in known_findings.json and reported as KNOWN-FINDING; any other shape fails the check.",
   note=_HIST_NOTE + " Ordering between a dead-letter-forwarded copy and other messages of an ordered subscription is treated as unspecified."),
 "C06": dict(technique="attempt counter + exactly-once-forward ledger over source and dead-letter subscriptions",
   text="Exploration: topologies with 0..n dead-letter subscribers (filtered, ordered, deleted topic, chains, self-loops), N in {1,2,3,5}, the three trigger paths (due pull, NackDeliveries, sweep with exact-count oracle) in random order; forwards must appear exactly once, never early, never after ack/expiry, and the source must never exceed N.",
   note=_HIST_NOTE + " A dead-letter policy whose topic was deleted is unspecified (either outcome accepted)."),
 "C07": dict(engine="rig-u", technique="differential monitor against an independent three-valued reference evaluator; metamorphic boolean laws; race detector",
   text="Exploration with a completely enumerated core: every basic expression over a 15x11 name/value vocabulary and every two-term AND/OR over 60 core terms, each on all attribute maps, plus seeded deeper filters in several concrete syntaxes, 7 boolean laws, and an end-to-end routing part through CreateSubscription/Publish/Pull. Millions of (filter, attributes) comparisons per quick run.",
   note="Trusted base: harness/ref (reference lexer/parser/evaluator, written from the documented grammar). `!=` on an absent attribute and bare keyword-named attributes are unspecified and skipped (counted)."),
 "C08": dict(engine="rig-u", technique="differential acceptance monitor against a token-level reference recognizer; crash/hang monitor; print/parse round-trip monitor",
   text="Exploration: ~1e6 single-token mutants of grammar sentences per quick run compared for acceptance, every accepted input round-tripped through AsFilter, raw hostile strings for totality, and the same strings through CreateSubscription/UpdateSubscription (rejected => not stored).",
   note="Trusted base: harness/ref recognizer. Inputs are token-built, so text/scanner whitespace/comment quirks are outside the compared domain; the hang bound (20 s wall) is the only wall-clock verdict."),
 "C09": dict(technique="fault injection at the SQL-driver seam (fail / cancel statement k for every k), table-dump equality before/after, notification observers, retry-equivalence against a fault-free twin",
   text="Fault enumeration: for each of 33 mutating operations in 2 (quick) / 6 (thorough) prepared states, every statement position k (BEGIN, each statement, COMMIT) is failed with a driver error and, separately, hit by a context cancellation, on the same database; after each failed attempt the five tables must be byte-identical (pull family: modulo subscriptions.expires_at), no publish/modify waiter may have been woken, and the final fault-free retry must have exactly the effect of a fault-free twin. Complete over the listed (operation, state, k, mode) grid; the grid itself is finite and listed in the evidence.",
   note="Trusted base: SQLite's atomic commit, the seam driver (harness/seam), canonical dumps (harness/rig/dump.go). Streams are checked per internal transaction (acks / deadline changes) because the stream's sender keeps fetching concurrently. One genuine defect (delay-injector answers 200 on commit failure) is a known finding."),
 "C10": dict(technique="quiescence monitor in virtual time over a grid of transaction-boundary schedules; Go race detector",
   text="Exploration of schedules: the writer's commit (and its commit->notify gap) is placed in every gap between the waiter's register / check / wait steps by virtual delays at transaction boundaries; after the writer returned, the waiter must have returned a message at quiescence within its own scheduled delays, i.e. without any timer. 7 writer kinds x waiter kinds (Pull, StreamingPull) x fresh/warm notifier state; built with -race.",
   note="Trusted base: testing/synctest quiescence semantics; the seam's boundary delays. Only in-process notification (SQLite) is executed; PostgreSQL LISTEN/NOTIFY is not. One defect found this way was repaired (fix: WakePublishListeners)."),
 "C11": dict(technique="client-side outstanding ledger evaluated at every Send (hook in the fake stream) + quiescence no-stall monitor; random virtual delays at the stream's transaction boundaries; Go race detector",
   text="Exploration: seeded stream scripts over flow-control x size grids; the ledger is updated synchronously inside the real sender's Send call, so every reachable 'just sent' state is checked against max_outstanding_messages / bytes; after each capacity-freeing action the stream must have sent any fitting deliverable message by quiescence. One stall shape (byte head-of-line) is a recorded known finding; the nack slot leak found this way was repaired.",
   note="Trusted base: the ledger's settle rules (DESIGN.md 4A, streaming capacity) chosen so that a correct server can never be accused; testing/synctest quiescence."),
 "C12": dict(technique="name -> resource reference map over create/delete/re-create/get/list histories with adversarial names; page-walk multiset comparison; racing creators under the race detector",
   text="Exploration: histories over projects and ids that differ by case, prefix and LIKE wildcards; every status code of Create/Get/Delete is compared with the model's live map, every List is walked to exhaustion for page sizes {1,2,3,7,100,0,-1} and compared as a multiset with the live set of exactly that project, re-created subscriptions are checked for inherited settings and backlog, and 2-4 concurrent creators of one name must yield exactly one OK. Two defects found this way were repaired (ListSnapshots prefix, case-folding LIKE).",
   note="Trusted base: the string-prefix reference for 'project'; SQLite only. Snapshots of a subscription whose topic is already deleted are tracked as existing (listing them is unspecified but consistent)."),
 "C13": dict(technique="reference-model monitor: expected backlog after seek (set equality via probe pulls and drain)",
   text="Exploration: histories of publish / pull / partial ack / snapshot / more traffic / seek to past, present, future times and to own snapshots, repeated seeks, then probes and a drain; what is outstanding afterwards must equal the model's backlog (missing => seek-revived-missing, extra => delivered-after-seek-past).",
   note=_HIST_NOTE + " 'Retained' is read from the deliveries table (pruned rows are documented as not resurrected). Sibling-subscription snapshots, dead-letter subscriptions under seek and revival of completed-and-expired messages are unspecified."),
 "C14": dict(technique="deadline ledger in virtual time (retention, subscription TTL with activity tracking, injected delivery delay)",
   text="Exploration: retention 10 s..31 d, TTL 1 min..365 d, delays 0..1 h set through the real delay-injector controller; clock jumps of seconds to 8 days; the expiry job's deletion count is compared exactly with the model (activity = create, every pull, stream fetches, expiration_policy updates), deliveries after retention or before the injected delay are violations.",
   note=_HIST_NOTE),
}

_PENDING = "check not built yet at this commit (work in progress; runtime monitoring applies - see DESIGN.md section 4)"
NOT_APPLICABLE = [{"property_id": p, "reason": _PENDING} for p in ["C09", "C10", "C11", "C12", "C15", "C16", "C17", "C18", "C19"] if p not in TEXT]
