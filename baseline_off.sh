#!/bin/bash
# Runs the repository's own test suite with the verif build tag OFF and compares
# with the pinned baseline (/root/.vp/BASELINE.json): every stable test must pass.
set -u
export GOFLAGS=-mod=mod GOPROXY=off
out=$(mktemp)
( cd /repo && go test -mod=mod -json -vet=off -count=1 -timeout 25m ./... ) > "$out" 2>/dev/null
python3 - "$out" <<'PY'
import json,sys
base=json.load(open('/root/.vp/BASELINE.json'))
stable=set(base['stable_pass'])
res={}
for l in open(sys.argv[1]):
    try: e=json.loads(l)
    except Exception: continue
    if e.get('Action') in('pass','fail','skip') and e.get('Test'):
        res[e['Package']+'::'+e['Test']]=e['Action']
missing=sorted(t for t in stable if res.get(t)!='pass')
print(f"baseline: {len(stable)} stable tests, {len(stable)-len(missing)} pass with the verif tag off")
for m in missing: print("NOT PASSING:",m,res.get(m))
sys.exit(1 if missing else 0)
PY
rc=$?
rm -f "$out"
exit $rc
