#!/bin/bash
# Builds the harness binaries once (warms the Go build cache). Offline.
set -e
cd "$(dirname "$0")/harness"
export GOFLAGS=-mod=mod GOPROXY=off GOTOOLCHAIN=local CGO_ENABLED=1
unset GOSUMDB
mkdir -p ../.bin
go1.26.8 version
go1.26.8 test -c -tags verif -o ../.bin/rigv.test ./rigv
echo "setup ok"
