#!/bin/bash
# Builds the harness binaries once (warms the Go build cache). Offline.
set -e
cd "$(dirname "$0")"
export GOFLAGS=-mod=mod GOPROXY=off GOTOOLCHAIN=local CGO_ENABLED=1
unset GOSUMDB
mkdir -p .bin evidence replays
go1.26.8 version
python3 - <<'PY' > .bin/builds.txt
import sys
sys.path.insert(0, ".")
from checks_spec import SPECS
seen = set()
for pid, spec in sorted(SPECS.items()):
    parts = spec.get("parts") or [dict(binary=spec["binary"], pkg=spec["pkg"], race=spec.get("race", False))]
    for p in parts:
        key = (p["binary"], p["pkg"], bool(p.get("race")))
        if key not in seen:
            seen.add(key)
            print(p["binary"], p["pkg"], "race" if p.get("race") else "norace")
PY
while read bin pkg race; do
  flags=""; suffix=""
  [ "$race" = race ] && flags="-race" && suffix="-race"
  echo "building $bin ($pkg, $race)"
  ( cd harness && go1.26.8 test -c $flags -tags verif -o ../.bin/$bin$suffix.test ./$pkg )
done < .bin/builds.txt
echo "setup ok"
