#!/bin/bash
# usage: seedcheck.sh <seed-dir> <prop> [<prop>...]
# 1. confirms the seeded change in a scratch worktree (suite passes with it, demo fails with / passes without)
# 2. applies it to /repo, runs the given checks, and restores /repo
set -u
SD=$1; shift
export GOFLAGS=-mod=mod GOPROXY=off
WT=/tmp/wt-verify-$$
git -C /repo worktree add -q --detach $WT HEAD || exit 2
trap 'git -C /repo worktree remove --force $WT >/dev/null 2>&1; git -C /repo checkout -q -- . ' EXIT
demo=$(cat $SD/demo_path.txt 2>/dev/null | tr -d '\n ')
demofile=$(ls $SD/*_test.go | head -1)
pkg=./$(dirname $demo)/
( cd $WT && git apply $SD/patch.diff ) || { echo "PATCH DOES NOT APPLY"; exit 2; }
( cd $WT && go build ./actions/ ./services/ ./filter/ ./faults/ ./grpc/ ./controllers/ ) || { echo "DOES NOT BUILD"; exit 2; }
echo "--- existing suite with the change:"
( cd $WT && go test -vet=off -count=1 ./actions/... ./services/... ./filter/... ./faults/... ./grpc/... ./controllers/... ./db/... ./internal/... 2>&1 | grep -v "no test files" | tail -12 )
cp $demofile $WT/$demo
echo "--- demo with the change (expect FAIL):"
( cd $WT && go test -vet=off -count=1 -run 'Seeded|Demo' $pkg 2>&1 | tail -4 )
( cd $WT && git apply -R $SD/patch.diff )
echo "--- demo without the change (expect ok):"
( cd $WT && go test -vet=off -count=1 -run 'Seeded|Demo' $pkg 2>&1 | tail -3 )
echo "--- checks against /repo with the change applied:"
git -C /repo apply $SD/patch.diff || { echo "PATCH DOES NOT APPLY TO /repo"; exit 2; }
for p in "$@"; do
  /verif/check $p 2>&1 | grep -E "^(VIOLATION|KNOWN|INCONCLUSIVE|NOTE|  signature|$p )" | cut -c1-230 | head -14
done
git -C /repo checkout -q -- .
