#!/bin/bash
# usage: seedcheck.sh <seed-dir> <prop> [<prop>...]
# 1. confirms the seeded change in a scratch worktree (suite passes with it, demo fails with / passes without)
# 2. applies it to /repo, runs the given checks, and restores /repo
# SEEDCHECK_FAST=1 skips step 1 (used by allseeds.sh: the seeds were confirmed when they were saved)
set -u
V=$(readlink -f "$(dirname "$0")/..")
SD=$(readlink -f "$1"); shift
export GOFLAGS=-mod=mod GOPROXY=off
WT=/tmp/wt-verify-$$
# a seed is a patch against the tree it was written for: meta.json may pin that
# commit (base_commit) when a later fix commit rewrote the same lines
BASE=${SEED_BASE:-HEAD}
if [ -f $SD/meta.json ]; then
  b=$(python3 -c "import json;print(json.load(open('$SD/meta.json')).get('base_commit',''))")
  [ -n "$b" ] && BASE=$b
fi
git -C /repo worktree add -q --detach $WT $BASE || exit 2
trap 'git -C /repo worktree remove --force $WT >/dev/null 2>&1; rm -rf $V/.bin/alt-* $V/.bin/mmmbbb-alt-*' EXIT
demofile=$(ls $SD/*_test.go $SD/*_test.go.txt 2>/dev/null | head -1)
if [ -f $SD/demo_path.txt ]; then demo=$(cat $SD/demo_path.txt | tr -d '\n ');
else demo=$(python3 -c "import json;print(json.load(open('$SD/meta.json'))['demonstration']['repo_path'])"); fi
pkg=./$(dirname $demo)/
if [ -z "${SEEDCHECK_FAST:-}" ]; then
( cd $WT && git apply $SD/patch.diff ) || { echo "PATCH DOES NOT APPLY"; exit 2; }
( cd $WT && go build ./actions/ ./services/ ./filter/ ./faults/ ./grpc/ ./controllers/ ) || { echo "DOES NOT BUILD"; exit 2; }
echo "--- existing suite with the change:"
( cd $WT && go test -vet=off -count=1 ./actions/... ./services/... ./filter/... ./faults/... ./grpc/... ./controllers/... ./db/... ./internal/... 2>&1 | grep -v "no test files" | tail -12 )
cp $demofile $WT/$demo
echo "--- demo with the change (expect FAIL):"
( cd $WT && go test -vet=off -count=1 -run 'Seeded|Demo' $pkg 2>&1 | tail -4 )
( cd $WT && git apply -R $SD/patch.diff )
echo "--- demo without the change (expect ok):"
( cd $WT && go test -vet=off -count=1 -run 'Seeded|Demo' $pkg 2>&1 | tail -3 )
fi
echo "--- checks against a scratch worktree of /repo $BASE with the change applied:"
( cd $WT && rm -f $demo && git apply $SD/patch.diff ) || { echo "PATCH DOES NOT APPLY"; exit 2; }
for p in "$@"; do
  # (observations that belong to other properties are only counted: there can be dozens)
  VERIF_REPO=$WT $V/check $p > $WT/.check.out 2>&1
  grep -E "^(VIOLATION|KNOWN|INCONCLUSIVE|  signature|$p )" $WT/.check.out | cut -c1-230 | head -40
  echo "($(grep -c '^NOTE' $WT/.check.out) observations attributed to other properties)"
done
