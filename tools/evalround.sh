#!/bin/bash
# usage: evalround.sh <letter> : full seedcheck (confirmation + checks) of every /tmp/seeds/Cxx-<letter>,
# three at a time; one summary file per seed under /tmp/seeds/eval-<letter>/
L=$1
mkdir -p /tmp/seeds/eval-$L
cd "$(dirname "$0")/.."
run() {
  id=$1; p=${id%%-*}
  [ -f /tmp/seeds/$id/patch.diff ] || { echo "$id: no patch"; return; }
  tools/seedcheck.sh /tmp/seeds/$id $p > /tmp/seeds/eval-$L/$id.txt 2>&1
  echo "$id: $(grep -c "^VIOLATION property=$p " /tmp/seeds/eval-$L/$id.txt) violations under $p"
}
for id in $(ls /tmp/seeds | grep -- "-$L\$"); do
  run $id &
  while [ $(jobs -r | wc -l) -ge 3 ]; do sleep 2; done
done
wait
