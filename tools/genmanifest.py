#!/usr/bin/env python3
"""Regenerates /verif/MANIFEST.json from checks_spec.py (+ manifest_text.py)."""
import json, sys, os
sys.path.insert(0, "/verif")
from checks_spec import SPECS
from manifest_text import TEXT, NOT_APPLICABLE, HOOK_COMMITS
checks = []
for pid in sorted(SPECS):
    if pid not in TEXT:
        continue
    t = TEXT[pid]
    checks.append({
        "property_id": pid,
        "quick_cmd": f"./check {pid} --tier quick",
        "thorough_cmd": f"./check {pid} --tier thorough",
        "evidence_file": f"/verif/evidence/{pid}.json",
        "replay_cmd_template": f"./check {pid} --replay {{path}}",
        "engine": t.get("engine", "rig-v"),
        "level_claimed": {"category": SPECS[pid]["level"], "text": t["text"], "design_ref": t.get("design_ref", f"DESIGN.md section 4 ({pid})")},
        "level_note": t["note"],
        "technique": t["technique"],
    })
m = {
    "version": 1,
    "setup_cmd": "./setup.sh",
    "hooks": {
        "guard": "verif",
        "enable": "Go build tag: every check compiles /repo's current working tree through the harness module (replace go.6river.tech/mmmbbb => /repo) with `go1.26.8 test -c -tags verif`",
        "baseline_off_cmd": "./baseline_off.sh",
        "source_commits": HOOK_COMMITS,
        "add_only": True,
    },
    "engines": [
        {"name": "rig-v", "path": "harness/rigv", "kind_free_text": "runtime monitoring: real handlers in-process inside a testing/synctest bubble (virtual clock, quiescence oracle) over a SQL-driver seam; reference-model / ledger / invariant monitors", "serves_properties": [c["property_id"] for c in checks if c["engine"] == "rig-v"]},
        {"name": "rig-u", "path": "harness/rigu", "kind_free_text": "runtime monitoring of pure functions and in-memory structures: differential monitors against independent references, Go race detector", "serves_properties": [c["property_id"] for c in checks if c["engine"] == "rig-u"]},
        {"name": "rig-p", "path": "harness/rigp", "kind_free_text": "runtime monitoring of the real cmd/mmmbbb binary as a child process over gRPC/HTTP: liveness and status monitors", "serves_properties": [c["property_id"] for c in checks if c["engine"] == "rig-p"]},
    ],
    "checks": checks,
    "not_applicable": NOT_APPLICABLE,
    "notes": "Technique family: runtime monitoring and sanitizers. Every verdict is 'held on what was observed'; evidence files list the events the monitors actually saw. Known findings: known_findings.json. See DESIGN.md.",
}
json.dump(m, open("/verif/MANIFEST.json", "w"), indent=1)
print("MANIFEST.json:", len(checks), "checks,", len(NOT_APPLICABLE), "not applicable")
