#!/usr/bin/env python3
"""uncovered.py <file-suffix>...: source lines of blocks no workload reached (after tools/cover.sh)"""
import sys,glob
blocks={}
for f in glob.glob("/dev/shm/verif-cover/*.cov"):
    for l in open(f):
        if l.startswith("mode:"): continue
        loc,n,c=l.rsplit(" ",2)
        blocks[loc]=max(int(c),blocks.get(loc,0))
for suf in sys.argv[1:]:
    for loc,c in sorted(blocks.items(), key=lambda x:(x[0].split(":")[0], int(x[0].split(":")[1].split(".")[0]))):
        f,r=loc.split(":")
        if not f.endswith(suf) or c>0: continue
        a,b=r.split(",")
        sl,el=int(a.split(".")[0]),int(b.split(".")[0])
        path="/repo/"+f.split("mmmbbb/",1)[1]
        src=open(path).read().split("\n")
        print(f"--- {path}:{sl}-{el}")
        for i in range(sl-1,min(el,sl+5)):
            print("   ",src[i][:140])
