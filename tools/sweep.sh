#!/bin/bash
# usage: sweep.sh <tier> <seed>...   runs every check at the given seeds, prints one line per run
tier=$1; shift
cd "$(dirname "$0")/.."
for s in "$@"; do
  for p in C01 C02 C03 C04 C05 C06 C07 C08 C09 C10 C11 C12 C13 C14 C15 C16 C17 C18 C19; do
    out=$(./check $p --tier $tier --seed $s 2>&1); rc=$?
    echo "seed=$s rc=$rc $(echo "$out" | grep "^$p " | tail -1)"
    if [ $rc -ne 0 ]; then echo "$out" | grep -E "VIOLATION|signature|INCONCLUSIVE" | head -6; fi
  done
done
