#!/usr/bin/env python3
import json,sys
r=json.load(open(sys.argv[1]))
w=r['witness']
print(r['property'],r['signature']); print(r['message']); print('seed',w.get('case_seed'),w.get('profile'))
flt=sys.argv[2] if len(sys.argv)>2 else None
vi=[v['op_index'] for v in w.get('violations',[])]
print('violations at', [(v['op_index'],v['property'],v['signature']) for v in w.get('violations',[])])
first=vi[0] if vi else 0
for o in w.get('ops',[]):
    if o['i']>first+2: break
    if flt is None or flt in o.get('args','') or o['op'] in('jump','job','sweep') :
        print(o['i'],o['at'],o['op'],o.get('args',''),'->',o.get('res',''))
