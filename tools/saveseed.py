#!/usr/bin/env python3
"""saveseed.py <src-dir> <seed-id> <property> <caught-by (comma list or none)> <needs...>"""
import json, os, shutil, sys, glob
src, sid, prop, caught = sys.argv[1:5]
needs = " ".join(sys.argv[5:])
dst = f"/verif/seeded/{sid}"
os.makedirs(dst, exist_ok=True)
shutil.copy(os.path.join(src, "patch.diff"), dst)
demo = glob.glob(os.path.join(src, "*_test.go"))[0]
shutil.copy(demo, os.path.join(dst, os.path.basename(demo) + ".txt"))  # .txt: must not be compiled as part of /verif
demo_path = open(os.path.join(src, "demo_path.txt")).read().strip()
readme = open(os.path.join(src, "README.md")).read()
open(os.path.join(dst, "AGENT_README.md"), "w").write(readme)
meta = {
    "seed": sid, "breaks_property": prop, "origin": "independent sub-agent given only the property text and a scratch worktree",
    "needs_to_manifest": needs,
    "demonstration": {"file": os.path.basename(demo) + ".txt", "repo_path": demo_path,
                      "confirmed": "tools/seedcheck.sh: existing suite passes with the change; demo fails with it and passes without it (scratch worktree)"},
    "ran": f"tools/seedcheck.sh <seed> {caught.replace(',', ' ')} (git -C /repo apply patch.diff; ./check <id>; git -C /repo checkout -- .)",
    "detected_by": [] if caught == "none" else caught.split(","),
}
if os.environ.get("SEED_BASE"):
    meta["base_commit"] = os.environ["SEED_BASE"]
    meta["base_note"] = "the patch no longer applies to /repo HEAD because a later fix: commit rewrote the same lines; it is checked against this commit"
json.dump(meta, open(os.path.join(dst, "meta.json"), "w"), indent=1)
print("saved", dst)
