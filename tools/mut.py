#!/usr/bin/env python3
"""Self-made sanity mutations: apply one to /repo, run checks, restore.
usage: mut.py <mutation> <prop> [<prop>...]     |  mut.py --list"""
import subprocess, sys
M = {
 # name: (file, old, new)
 "delay-drops-completed-guard": ("actions/delay-deliveries.go", "\t\tdelivery.IDIn(a.params.IDs...),\n\t\tdelivery.CompletedAtIsNil(),\n\t}\n\n\tnewAttemptAt", "\t\tdelivery.IDIn(a.params.IDs...),\n\t}\n\n\tnewAttemptAt"),
 "backoff-exponent-off-by-one": ("actions/get-subscription-messages.go", "nominalDelay, fuzzedDelay := NextDelayFor(sub, d.Attempts+1)", "nominalDelay, fuzzedDelay := NextDelayFor(sub, d.Attempts)"),
 "dl-gt-instead-of-gte-pull": ("actions/get-subscription-messages.go", "if hasDeadLettering && d.Attempts >= int(*sub.MaxDeliveryAttempts) {", "if hasDeadLettering && d.Attempts > int(*sub.MaxDeliveryAttempts) {"),
 "seek-time-lte-to-lt": ("actions/seek-subscription-to-time.go", "delivery.PublishedAtLTE(a.params.Time),", "delivery.PublishedAtLT(a.params.Time.Add(-time.Hour)),"),
 "seek-no-fresh-expiry": ("actions/seek-subscription-to-time.go", "\t\tSetExpiresAt(now.Add(time.Duration(sub.MessageTTL))).\n", ""),
 "pull-drops-attempt-at": ("actions/get-subscription-messages.go", "q := a.buildDeliveryQuery(tx, sub, delivery.AttemptAtLTE(now))", "q := a.buildDeliveryQuery(tx, sub)"),
 "ack-by-message": ("actions/ack-deliveries.go", "\t\tdelivery.IDIn(a.params.ids...),\n\t\tdelivery.CompletedAtIsNil(),\n\t}\n\n\t// we need", "\t\tdelivery.Or(delivery.IDIn(a.params.ids...), delivery.MessageIDIn(a.params.ids...)),\n\t\tdelivery.CompletedAtIsNil(),\n\t}\n\n\t// we need"),
 "publish-skips-last-sub": ("actions/publish-message.go", "for _, s := range t.Edges.Subscriptions {", "for i, s := range t.Edges.Subscriptions {\n\t\tif i == 2 {\n\t\t\tcontinue\n\t\t}"),
 "expiry-uses-ttl-not-msgttl": ("actions/delivery-utils.go", "SetExpiresAt(now.Add(time.Duration(s.MessageTTL))).", "SetExpiresAt(now.Add(time.Duration(s.TTL))).") ,
 "prune-completed-ignores-completed": ("actions/prune-completed-deliveries.go", "Where(delivery.CompletedAtLTE(time.Now().Add(-pcd.params.MinAge))).", "Where(delivery.PublishedAtLTE(time.Now().Add(-pcd.params.MinAge))).") ,
 "order-pred-ignores-expiry": ("actions/get-subscription-messages.go", "\t\t\t\tsql.LTE(t.C(delivery.FieldExpiresAt), now),\n", ""),
 "modack-positive-moves-earlier": ("actions/delay-deliveries.go", "\t\tpredicates = append(predicates, delivery.AttemptAtLT(newAttemptAt))\n", ""),
 "nolimit": ("actions/get-subscription-messages.go", "\t\tLimit(a.params.MaxMessages).\n", ""),
 "sub-expiry-not-refreshed": ("actions/get-subscription-messages.go", "\t// refresh the subscription expiration\n\terr := tx.Subscription.UpdateOne(sub).\n\t\tSetExpiresAt(now.Add(time.Duration(sub.TTL))).\n\t\tExec(ctx)", "\tvar err error"),
 "notify-before-commit": ("actions/notify.go", "func notifyPublish(tx *ent.Tx, subIDs ...uuid.UUID) {\n", "func notifyPublish(tx *ent.Tx, subIDs ...uuid.UUID) {\n\tWakePublishListeners(false, subIDs...)\n"),
 "deadletter-complete-first-own-tx": ("actions/delivery-utils.go", "\tif dlTopic != nil && len(dlTopic.Edges.Subscriptions) != 0 {", "\tif dlTopic != nil && len(dlTopic.Edges.Subscriptions) != 0 && false {"),
 "no-txlock-immediate": ("db/sqlite-cgo.go", "\t\t\"_txlock\": []string{\"immediate\"},\n", ""),
 "wake-return-not-continue": ("actions/notify.go", "\t\tif waitSet == nil {\n\t\t\tcontinue\n\t\t}", "\t\tif waitSet == nil {\n\t\t\treturn\n\t\t}"),
}
def sh(*a, **k): return subprocess.run(a, **k)
if sys.argv[1] == "--list":
    print("\n".join(M)); sys.exit(0)
name = sys.argv[1]; props = sys.argv[2:]
f, old, new = M[name]
p = "/repo/" + f
s = open(p).read()
if old not in s: print("PATTERN NOT FOUND", name); sys.exit(2)
open(p, "w").write(s.replace(old, new, 1))
try:
    b = sh("go", "build", "./actions/", "./services/", "./db/", cwd="/repo", env={**__import__('os').environ, "GOFLAGS": "-mod=mod", "GOPROXY": "off"})
    if b.returncode != 0: print("MUTANT DOES NOT BUILD"); sys.exit(2)
    for pr in props:
        r = sh("/verif/check", pr, stdout=subprocess.PIPE, stderr=subprocess.STDOUT, text=True)
        lines = [l for l in r.stdout.splitlines() if l.startswith(("VIOLATION", "NOTE", "INCONCLUSIVE", "KNOWN", pr))]
        print(f"== {name} / {pr}: rc={r.returncode}")
        for l in lines[:8]: print("   ", l[:220])
        sigs=[l for l in r.stdout.splitlines() if l.startswith("  signature")]
        for l in sigs[:6]: print("   ", l)
finally:
    sh("git", "-C", "/repo", "checkout", "--", ".")
