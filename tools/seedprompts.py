#!/usr/bin/env python3
"""seedprompts.py <round-letter> : write /tmp/seeds/<Cxx><letter>.prompt.txt for every property.

The prompt gives a sub-agent the property text, a scratch worktree path and the
ideas/files earlier seeds for the property used (so it picks something else) -
nothing from /verif."""
import json, os, re, sys, glob
letter = sys.argv[1]
props = [json.loads(l) for l in open("/verif/properties.jsonl")]
SCHED = {"C03", "C04", "C09", "C10", "C11", "C18", "C19"}
for p in props:
    pid = p["id"]
    tag = pid + letter
    sid = f"{pid}-{letter}"
    ideas, files = [], set()
    for d in sorted(glob.glob(f"/verif/seeded/{pid}-*")):
        m = json.load(open(d + "/meta.json"))
        idea = re.sub(r" \((?:first missed|caught|C\d\d caught|C\d\d saw|as an|missed|filed|the day|reachable).*$", "", m["needs_to_manifest"], flags=re.S)
        ideas.append('"' + idea.strip() + '"')
        for l in open(d + "/patch.diff"):
            if l.startswith("+++ b/"):
                files.add(l[6:].strip())
    a = p.get("anchors") or {}
    anchors = "files %s; mechanisms: %s" % (a.get("files"), "; ".join("%s (%s)" % (m["name"], m["where"]) for m in a.get("mechanism", [])))
    q = p.get("quantifier", "")
    if isinstance(q, dict):
        q = q.get("text", "")
    text = f"""You are helping to evaluate a verification framework by producing ONE realistic defect ("seeded change") for an open-source Go project: 6RiverSystems/mmmbbb, a re-implementation of the Google Pub/Sub gRPC API backed by SQL (SQLite in tests).

Your private scratch git worktree of the project is at: /tmp/wt-{tag}   (work ONLY inside it and under /tmp/seeds/{sid}; never touch /repo or /verif, and do not read anything under /verif).

The semantic property your change must break:

{pid}: {p.get('title','')}

STATEMENT: {p.get('statement','')}

QUANTIFIED OVER: {q}

WHY THE EXISTING TESTS CANNOT SETTLE IT: {p.get('why_tests_cant','')}

CODE ANCHORS: {anchors}


ADDITIONAL CONSTRAINT: previous seeds for this property already used these ideas: {'; '.join(ideas)}. They touched these files: {', '.join(sorted(files))}. Choose a clearly DIFFERENT mechanism. Strongly prefer a file or function none of them touched, an unusual-but-legal value or configuration, or an interaction of two features (ordering + dead-lettering, filters + seek, retention + snapshots, update RPCs + existing backlog, deletion + re-creation under the same name, streaming pull + any of these, push subscriptions + any of these, background services + client calls).{' The defect must need a particular interleaving of concurrent calls or a storage fault / crash at a particular point to show.' if pid in SCHED else ''} Other people work in /tmp at the same time: any temporary file you create outside your worktree must have a name starting with /tmp/{tag}- .


TASK
1. Read the relevant code in /tmp/wt-{tag} (start at the code anchors above, README.md, actions/, services/).
2. Make a small, realistic change to the NON-test Go source in /tmp/wt-{tag} (the kind of bug a developer could plausibly introduce: a wrong predicate, an off-by-one, a dropped condition, a reordered step, a missed case, two sites that each look fine alone) that BREAKS the property above, while
   (a) the project still compiles, and
   (b) the existing test suite still passes: run `cd /tmp/wt-{tag} && export GOFLAGS=-mod=mod GOPROXY=off && go test -vet=off -count=1 ./actions/... ./services/... ./filter/... ./faults/... ./grpc/... ./controllers/... ./db/... ./internal/... ./parse/... ./middleware/... ./migrate/... ./oas/... ./logging/... 2>&1 | tail -30` (package ./cmd/mmmbbb does not build in this checkout because version/version.go is generated - that is pre-existing, ignore it; the sandbox is offline, never try to download modules; the tests TestMessageStreamer_Go and TestHttpPush are flaky under load on the unchanged code - re-run them alone if they fail). Do not edit or delete existing tests.
   (c) the defect needs something SPECIFIC to manifest - a particular interleaving, a fault/crash at a particular point, a multi-step sequence of operations, an unusual input or configuration, or two cooperating sites - NOT something ordinary use would expose at once (e.g. not "every pull returns nothing").
3. Write a demonstration: a new Go test file (put it in the appropriate package directory inside /tmp/wt-{tag}, e.g. /tmp/wt-{tag}/actions/seeded_demo_test.go or /tmp/wt-{tag}/services/seeded_demo_test.go; you may use the helpers the existing tests use, e.g. enttest.ClientForTest) that FAILS with your change and PASSES on the original code. Verify both: run it with your change (must fail); then save your change with `git -C /tmp/wt-{tag} diff -- . ':(exclude)*seeded_demo_test.go' > /tmp/{tag}-change.diff`, undo it with `git -C /tmp/wt-{tag} apply -R /tmp/{tag}-change.diff` (keep the demo test), run the demo again (must pass), then re-apply with `git -C /tmp/wt-{tag} apply /tmp/{tag}-change.diff`. NEVER use `git stash` (the stash is shared with other people's worktrees).
4. Save the results in /tmp/seeds/{sid} (create it):
   - /tmp/seeds/{sid}/patch.diff : `git -C /tmp/wt-{tag} diff -- . ':(exclude)*seeded_demo_test.go'` of the NON-test source change only (must apply with `git apply` on a clean checkout of the same commit)
   - /tmp/seeds/{sid}/<name of your demo test file> : copy of the demonstration test, and /tmp/seeds/{sid}/demo_path.txt containing its path relative to the repository root
   - /tmp/seeds/{sid}/README.md : which property it breaks, what exactly the change is, what specific circumstances are needed for it to manifest, and the exact commands you ran with their observed results (existing suite passing with the change; demo failing with / passing without).
Keep the change minimal (ideally 1-10 lines). Do not add build tags. Do not modify go.mod/go.sum. Finish by printing the content of /tmp/seeds/{sid}/README.md.
"""
    os.makedirs("/tmp/seeds", exist_ok=True)
    open(f"/tmp/seeds/{tag}.prompt.txt", "w").write(text)
print("written", len(props))
