#!/bin/bash
# Runs every saved seed against the checks listed in its meta.json (detected_by) and
# reports whether each is still caught. Works on scratch worktrees; /repo is not touched.
cd "$(dirname "$0")/.."
for d in seeded/*/; do
  id=$(basename $d)
  props=$(python3 -c "
import json,re
m=json.load(open('$d/meta.json'))
print(' '.join(sorted({re.match(r'C\d+',x).group(0) for x in m['detected_by'] if re.match(r'C\d+',x)})))")
  [ -z "$props" ] && { echo "$id: no detecting check recorded"; continue; }
  if [ -n "${ALLSEEDS_PROPS:-}" ]; then
    # restrict the regression to some checks (those that changed)
    keep=""; for p in $props; do case " $ALLSEEDS_PROPS " in *" $p "*) keep="$keep $p";; esac; done
    props=$keep; [ -z "$props" ] && continue
  fi
  out=$(SEEDCHECK_FAST=1 tools/seedcheck.sh $d $props 2>&1)
  for p in $props; do
    if echo "$out" | grep -q "^VIOLATION property=$p "; then echo "$id: caught by $p"; else echo "$id: NOT caught by $p"; fi
  done
done
