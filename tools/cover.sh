#!/bin/bash
# development aid: statement coverage of /repo reached by the quick tier of the given checks
# usage: tools/cover.sh C01 C02 ...   -> prints per-file coverage of the merged profiles
set -u
D=/dev/shm/verif-cover; rm -rf $D; mkdir -p $D
for p in "$@"; do VERIF_COVER=$D /verif/check $p --shards 2 2>&1 | tail -1 | cut -c1-160; done
python3 - "$D" <<'PY'
import sys,glob,collections
blocks={}
for f in glob.glob(sys.argv[1]+"/*.cov"):
    for l in open(f):
        if l.startswith("mode:"): continue
        loc,rest=l.rsplit(" ",2)[0],l.rsplit(" ",2)[1:]
        n,c=int(rest[0]),int(rest[1])
        blocks[loc]=(n,max(c,blocks.get(loc,(n,0))[1]))
per=collections.defaultdict(lambda:[0,0])
for loc,(n,c) in blocks.items():
    f=loc.split(":")[0]
    per[f][0]+=n
    if c>0: per[f][1]+=n
for f in sorted(per):
    t,c=per[f]
    if "/ent/" in f and "client-addons" not in f: continue
    print(f"{100*c/t:5.1f}% {c:5}/{t:<5} {f}")
PY
# uncovered blocks: grep ' 0$' $D/*.cov after merging by hand
rm -f /verif/.bin/*-cover.test
