// Package evd collects what a shard of a check observed and writes it as one
// JSON file that the dispatcher (/verif/check) merges into the evidence file.
package evd

import (
	"encoding/json"
	"fmt"
	"hash/fnv"
	"os"
	"path/filepath"
	"sort"
	"strconv"
	"strings"
	"sync"
	"time"
)

// Config comes from the environment set by /verif/check.
type Config struct {
	Seed     int64
	Tier     string // quick | thorough
	Shard    int
	NShards  int
	OutDir   string // shard result files
	Replays  string // replay directory
	ReplayOf string // path of a replay file to re-run ("" = normal run)
}

func Env() Config {
	c := Config{Seed: 1, Tier: "quick", NShards: 1, OutDir: os.Getenv("VERIF_OUT"), Replays: os.Getenv("VERIF_REPLAYS"), ReplayOf: os.Getenv("VERIF_REPLAY_OF")}
	if s := os.Getenv("VERIF_SEED"); s != "" {
		if v, err := strconv.ParseInt(s, 10, 64); err == nil {
			c.Seed = v
		}
	}
	if t := os.Getenv("VERIF_TIER"); t == "thorough" {
		c.Tier = t
	}
	if s := os.Getenv("VERIF_SHARD"); s != "" {
		parts := strings.Split(s, "/")
		if len(parts) == 2 {
			c.Shard, _ = strconv.Atoi(parts[0])
			c.NShards, _ = strconv.Atoi(parts[1])
		}
	}
	if c.NShards < 1 {
		c.NShards = 1
	}
	if c.OutDir == "" {
		c.OutDir = os.TempDir()
	}
	if c.Replays == "" {
		c.Replays = c.OutDir
	}
	return c
}

func (c Config) Thorough() bool { return c.Tier == "thorough" }

// N picks the case count by tier.
func (c Config) N(quick, thorough int) int {
	if c.Thorough() {
		return thorough
	}
	return quick
}

// ReplayCase returns the case seed recorded in the replay file, if this run is
// a replay of a single recorded case.
func (c Config) ReplayCase() (int64, bool) {
	if c.ReplayOf == "" {
		return 0, false
	}
	b, err := os.ReadFile(c.ReplayOf)
	if err != nil {
		return 0, false
	}
	var doc struct {
		Witness struct {
			CaseSeed *int64 `json:"case_seed"`
		} `json:"witness"`
	}
	if json.Unmarshal(b, &doc) != nil || doc.Witness.CaseSeed == nil {
		return 0, false
	}
	return *doc.Witness.CaseSeed, true
}

// Want says whether case i (with the given case seed) is to be run by this
// process: its shard's share normally, exactly the recorded case in a replay.
func (c Config) Want(i int, seed int64) bool {
	if rs, ok := c.ReplayCase(); ok {
		return seed == rs
	}
	return c.Mine(i)
}

// Mine says whether case index i belongs to this shard.
func (c Config) Mine(i int) bool { return i%c.NShards == c.Shard }

// CaseSeed derives the seed of case i of a property from VERIF_SEED.
func (c Config) CaseSeed(property string, i int) int64 {
	h := fnv.New64a()
	fmt.Fprintf(h, "%d/%s/%d", c.Seed, property, i)
	return int64(h.Sum64() & 0x7fffffffffffffff)
}

type Violation struct {
	Property  string `json:"property"`
	Signature string `json:"signature"`
	Message   string `json:"message"`
	Replay    string `json:"replay"`
}

type Result struct {
	Property     string           `json:"property"`
	Shard        int              `json:"shard"`
	Cases        int              `json:"cases"`
	Counters     map[string]int64 `json:"counters"`
	Fingerprints []string         `json:"fingerprints"` // distinct non-trivial case fingerprints
	Samples      []any            `json:"samples"`
	Violations   []Violation      `json:"violations"`
	Inconclusive []string         `json:"inconclusive"`
	Notes        []string         `json:"notes"`
	WallS        float64          `json:"wall_s"`
}

type Collector struct {
	mu    sync.Mutex
	cfg   Config
	res   Result
	fps   map[string]struct{}
	start time.Time
	nviol int
}

func New(property string, cfg Config) *Collector {
	return &Collector{cfg: cfg, res: Result{Property: property, Shard: cfg.Shard, Counters: map[string]int64{}}, fps: map[string]struct{}{}, start: time.Now()}
}

func (c *Collector) Cfg() Config { return c.cfg }

func (c *Collector) Add(counter string, n int64) {
	c.mu.Lock()
	c.res.Counters[counter] += n
	c.mu.Unlock()
}

func (c *Collector) Max(counter string, n int64) {
	c.mu.Lock()
	if c.res.Counters[counter] < n {
		c.res.Counters[counter] = n
	}
	c.mu.Unlock()
}

// Case records one evaluated case. fp is its fingerprint; nontrivial says
// whether it contained at least one event relevant to the property.
func (c *Collector) Case(fp string, nontrivial bool) {
	c.mu.Lock()
	c.res.Cases++
	if nontrivial {
		c.fps[fp] = struct{}{}
	}
	c.mu.Unlock()
}

func (c *Collector) Sample(s any) {
	c.mu.Lock()
	if len(c.res.Samples) < 3 {
		c.res.Samples = append(c.res.Samples, s)
	}
	c.mu.Unlock()
}

func (c *Collector) Note(s string) {
	c.mu.Lock()
	if len(c.res.Notes) < 50 {
		c.res.Notes = append(c.res.Notes, s)
	}
	c.mu.Unlock()
}

func (c *Collector) Inconclusive(s string) {
	c.mu.Lock()
	c.res.Inconclusive = append(c.res.Inconclusive, s)
	c.mu.Unlock()
}

// Violation records a violation of the property this collector runs for.
func (c *Collector) Violation(signature, message string, witness any) string {
	return c.ViolationFor(c.res.Property, signature, message, witness)
}

// ViolationFor records a violation attributed to property prop (which may
// differ from the property whose check is running) with its witness; the
// witness is written to the replay directory and the path is returned.
func (c *Collector) ViolationFor(prop, signature, message string, witness any) string {
	c.mu.Lock()
	defer c.mu.Unlock()
	c.nviol++
	name := fmt.Sprintf("%s-%d-%s%d-%d.json", prop, c.cfg.Seed, os.Getenv("VERIF_PART"), c.cfg.Shard, c.nviol)
	path := filepath.Join(c.cfg.Replays, name)
	if len(c.res.Violations) < 200 {
		b, err := json.MarshalIndent(map[string]any{
			"property": prop, "checked_by": c.res.Property, "signature": signature, "message": message,
			"verif_seed": c.cfg.Seed, "tier": c.cfg.Tier, "witness": witness,
			// a generated history depends on the generator's code: a replay reproduces
			// the case only with the harness revision that wrote the witness
			"harness_rev": os.Getenv("VERIF_HARNESS_REV"),
		}, "", " ")
		if err != nil {
			b = []byte(fmt.Sprintf(`{"property":%q,"signature":%q,"message":%q,"marshal_error":%q}`, c.res.Property, signature, message, err.Error()))
		}
		_ = os.MkdirAll(c.cfg.Replays, 0o755)
		_ = os.WriteFile(path, b, 0o644)
		c.res.Violations = append(c.res.Violations, Violation{Property: prop, Signature: signature, Message: message, Replay: path})
	}
	return path
}

func (c *Collector) NumViolations() int { c.mu.Lock(); defer c.mu.Unlock(); return c.nviol }

// Flush writes the shard result file.
func (c *Collector) Flush() error {
	c.mu.Lock()
	defer c.mu.Unlock()
	c.res.Fingerprints = c.res.Fingerprints[:0]
	for f := range c.fps {
		c.res.Fingerprints = append(c.res.Fingerprints, f)
	}
	sort.Strings(c.res.Fingerprints)
	c.res.WallS = time.Since(c.start).Seconds()
	b, err := json.Marshal(&c.res)
	if err != nil {
		return err
	}
	_ = os.MkdirAll(c.cfg.OutDir, 0o755)
	part := os.Getenv("VERIF_PART")
	if part == "" {
		part = "main"
	}
	return os.WriteFile(filepath.Join(c.cfg.OutDir, fmt.Sprintf("%s.%s.shard%d.json", c.res.Property, part, c.cfg.Shard)), b, 0o644)
}

// FP hashes arbitrary parts into a short fingerprint string.
func FP(parts ...any) string {
	h := fnv.New64a()
	for _, p := range parts {
		fmt.Fprintf(h, "%v|", p)
	}
	return strconv.FormatUint(h.Sum64(), 36)
}
