package rig

import (
	"context"
	"io"
	"sync"
	"time"

	"google.golang.org/grpc"
	"google.golang.org/grpc/metadata"

	"go.6river.tech/mmmbbb/grpc/pubsubpb"
)

// FakeStream is an in-memory Subscriber_StreamingPullServer: the real
// StreamingPull handler reads requests from In and its sends are recorded (and
// reported synchronously to OnSend, from the real sender goroutine).
type FakeStream struct {
	ctx    context.Context
	cancel context.CancelFunc
	in     chan *pubsubpb.StreamingPullRequest

	mu     sync.Mutex
	sends  []SentBatch
	OnSend func(b SentBatch)
	// SendDelay, if set, is slept (virtually) inside Send before recording
	SendDelay func() time.Duration
	// SendLag: virtual time between the batch reaching the client and Send returning
	SendLag func() time.Duration
	closed    bool
}

type SentBatch struct {
	At   time.Time
	Msgs []*pubsubpb.ReceivedMessage
}

var _ pubsubpb.Subscriber_StreamingPullServer = (*FakeStream)(nil)

func NewFakeStream(parent context.Context) *FakeStream {
	ctx, cancel := context.WithCancel(parent)
	return &FakeStream{ctx: ctx, cancel: cancel, in: make(chan *pubsubpb.StreamingPullRequest)}
}

func (f *FakeStream) Context() context.Context { return f.ctx }

// Push hands a client request to the handler; it blocks until the handler's
// reader takes it (or the stream is closed).
func (f *FakeStream) Push(r *pubsubpb.StreamingPullRequest) bool {
	select {
	case f.in <- r:
		return true
	case <-f.ctx.Done():
		return false
	}
}

// CloseSend half-closes the stream the way a client's CloseSend does: the
// handler's next Recv returns io.EOF. No Push may follow.
func (f *FakeStream) CloseSend() {
	f.mu.Lock()
	defer f.mu.Unlock()
	if !f.closed {
		f.closed = true
		close(f.in)
	}
}

// Cancel ends the stream the way a client disconnect does.
func (f *FakeStream) Cancel() { f.cancel() }

func (f *FakeStream) Recv() (*pubsubpb.StreamingPullRequest, error) {
	select {
	case r, ok := <-f.in:
		if !ok {
			return nil, io.EOF
		}
		return r, nil
	case <-f.ctx.Done():
		return nil, f.ctx.Err()
	}
}

func (f *FakeStream) Send(r *pubsubpb.StreamingPullResponse) error {
	if f.SendDelay != nil {
		if d := f.SendDelay(); d > 0 {
			time.Sleep(d)
		}
	}
	if err := f.ctx.Err(); err != nil {
		return err
	}
	b := SentBatch{At: time.Now(), Msgs: r.ReceivedMessages}
	f.mu.Lock()
	f.sends = append(f.sends, b)
	cb := f.OnSend
	f.mu.Unlock()
	if cb != nil {
		cb(b)
	}
	// the batch is with the client; the server's Send call has not returned yet
	// (a write to the transport completes before the writing goroutine runs on)
	if f.SendLag != nil {
		if d := f.SendLag(); d > 0 {
			time.Sleep(d)
		}
	}
	return nil
}

// Take returns and clears the batches sent so far.
func (f *FakeStream) Take() []SentBatch {
	f.mu.Lock()
	defer f.mu.Unlock()
	out := f.sends
	f.sends = nil
	return out
}

func (f *FakeStream) SetHeader(metadata.MD) error  { return nil }
func (f *FakeStream) SendHeader(metadata.MD) error { return nil }
func (f *FakeStream) SetTrailer(metadata.MD)       {}
func (f *FakeStream) SendMsg(m any) error          { return f.Send(m.(*pubsubpb.StreamingPullResponse)) }
func (f *FakeStream) RecvMsg(m any) error          { return io.EOF }

var _ grpc.ServerStream = (*FakeStream)(nil)
