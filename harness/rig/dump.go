package rig

import (
	"context"
	"database/sql"
	"fmt"
	"sort"
	"strings"
	"time"

	"github.com/google/uuid"
)

// Tables are the five tables the properties talk about.
var Tables = []string{"topics", "subscriptions", "messages", "deliveries", "snapshots"}

// Row is one table row, column name -> canonical string value.
type Row map[string]string

// Dump is a canonical copy of the five tables.
type Dump map[string][]Row

func canon(v any) string {
	switch x := v.(type) {
	case nil:
		return "NULL"
	case []byte:
		if len(x) == 16 {
			if u, err := uuid.FromBytes(x); err == nil {
				return u.String()
			}
		}
		return string(x)
	case time.Time:
		return x.UTC().Format(time.RFC3339Nano)
	case string:
		return x
	}
	return fmt.Sprint(v)
}

// TakeDump reads all rows of the five tables (ordered by id) outside any
// transaction of the code under test.
func TakeDump(db *sql.DB) (Dump, error) {
	d := Dump{}
	for _, t := range Tables {
		rows, err := db.QueryContext(context.Background(), "SELECT * FROM "+t+" ORDER BY id")
		if err != nil {
			return nil, err
		}
		cols, _ := rows.Columns()
		for rows.Next() {
			vals := make([]any, len(cols))
			ptrs := make([]any, len(cols))
			for i := range vals {
				ptrs[i] = &vals[i]
			}
			if err := rows.Scan(ptrs...); err != nil {
				rows.Close()
				return nil, err
			}
			r := Row{}
			for i, c := range cols {
				r[c] = canon(vals[i])
			}
			d[t] = append(d[t], r)
		}
		rows.Close()
	}
	return d, nil
}

// Diff lists the differences between two dumps, ignoring the given
// "table.column" entries. Rows are matched by id.
func Diff(a, b Dump, ignore ...string) []string {
	ign := map[string]bool{}
	for _, i := range ignore {
		ign[i] = true
	}
	var out []string
	for _, t := range Tables {
		am, bm := map[string]Row{}, map[string]Row{}
		for _, r := range a[t] {
			am[r["id"]] = r
		}
		for _, r := range b[t] {
			bm[r["id"]] = r
		}
		var ids []string
		for id := range am {
			ids = append(ids, id)
		}
		for id := range bm {
			if _, ok := am[id]; !ok {
				ids = append(ids, id)
			}
		}
		sort.Strings(ids)
		for _, id := range ids {
			ra, oka := am[id]
			rb, okb := bm[id]
			switch {
			case !oka:
				out = append(out, fmt.Sprintf("%s: row %s appeared %v", t, id, rb))
			case !okb:
				out = append(out, fmt.Sprintf("%s: row %s disappeared %v", t, id, ra))
			default:
				var cols []string
				for c := range ra {
					cols = append(cols, c)
				}
				sort.Strings(cols)
				for _, c := range cols {
					if ign[t+"."+c] {
						continue
					}
					if ra[c] != rb[c] {
						out = append(out, fmt.Sprintf("%s[%s].%s: %q -> %q", t, id, c, ra[c], rb[c]))
					}
				}
			}
		}
	}
	return out
}

// Abstract renders a dump independent of generated ids and of instants: ids
// are replaced by natural keys, times by NULL / SET. Two runs that had the
// same effect produce the same abstract dump even if they consumed different
// random ids and clock ticks.
func Abstract(d Dump) []string {
	topicName := map[string]string{}
	for _, r := range d["topics"] {
		topicName[r["id"]] = r["name"] + liveTag(r)
	}
	subName := map[string]string{}
	for _, r := range d["subscriptions"] {
		subName[r["id"]] = r["name"] + liveTag(r)
	}
	msgKey := map[string]string{}
	for _, r := range d["messages"] {
		msgKey[r["id"]] = fmt.Sprintf("%s|%s|%s|%s", topicName[r["topic_id"]], r["payload"], r["attributes"], r["order_key"])
	}
	delKey := map[string]string{}
	for _, r := range d["deliveries"] {
		delKey[r["id"]] = subName[r["subscription_id"]] + "<-" + msgKey[r["message_id"]]
	}
	nn := func(s string) string {
		if s == "NULL" {
			return "NULL"
		}
		return "SET"
	}
	var out []string
	for _, r := range d["topics"] {
		out = append(out, fmt.Sprintf("topic %s labels=%s deleted=%s", topicName[r["id"]], r["labels"], nn(r["deleted_at"])))
	}
	for _, r := range d["subscriptions"] {
		out = append(out, fmt.Sprintf("sub %s topic=%s ttl=%s mttl=%s ordered=%s labels=%s minb=%s maxb=%s push=%s filter=%s maxatt=%s dl=%s delay=%s deleted=%s",
			subName[r["id"]], topicName[r["topic_id"]], r["ttl"], r["message_ttl"], r["ordered_delivery"], r["labels"], r["min_backoff"], r["max_backoff"],
			r["push_endpoint"], r["filter"], r["max_delivery_attempts"], topicName[r["dead_letter_topic_id"]], r["delivery_delay"], nn(r["deleted_at"])))
	}
	for _, r := range d["messages"] {
		out = append(out, "msg "+msgKey[r["id"]])
	}
	for _, r := range d["deliveries"] {
		out = append(out, fmt.Sprintf("del %s attempts=%s completed=%s last=%s notbefore=%s", delKey[r["id"]], r["attempts"], nn(r["completed_at"]), nn(r["last_attempted_at"]), delKey[r["not_before_id"]]))
	}
	for _, r := range d["snapshots"] {
		out = append(out, fmt.Sprintf("snap %s topic=%s labels=%s nacked=%d", r["name"], topicName[r["topic_id"]], r["labels"], strings.Count(r["acked_message_ids"], "-")/4))
	}
	sort.Strings(out)
	return out
}

func liveTag(r Row) string {
	if r["deleted_at"] != "NULL" && r["deleted_at"] != "" {
		return "(deleted)"
	}
	return ""
}

// DiffAbstract compares two abstract dumps as multisets.
func DiffAbstract(a, b []string) []string {
	cnt := map[string]int{}
	for _, x := range a {
		cnt[x]++
	}
	for _, x := range b {
		cnt[x]--
	}
	var out []string
	for k, v := range cnt {
		if v > 0 {
			out = append(out, fmt.Sprintf("only in first (x%d): %s", v, k))
		} else if v < 0 {
			out = append(out, fmt.Sprintf("only in second (x%d): %s", -v, k))
		}
	}
	sort.Strings(out)
	return out
}
