// Package rig holds the in-process, virtual-time test rig ("Rig V"): the real
// mmmbbb handlers on a real SQLite file, inside a testing/synctest bubble.
package rig

import (
	"context"
	"database/sql"
	"fmt"
	"io"
	"math/rand"
	"os"
	"path/filepath"
	"runtime"
	"sync"
	"testing"
	"testing/synctest"
	"time"

	"entgo.io/ent/dialect"
	entsql "entgo.io/ent/dialect/sql"
	"github.com/google/uuid"
	"github.com/rs/zerolog"

	"go.6river.tech/mmmbbb/actions"
	"go.6river.tech/mmmbbb/db"
	"go.6river.tech/mmmbbb/ent"
	_ "go.6river.tech/mmmbbb/ent/runtime"
	"go.6river.tech/mmmbbb/grpc/pubsubpb"
	"go.6river.tech/mmmbbb/logging"
	"go.6river.tech/mmmbbb/services"

	"verif/harness/seam"
)

func init() {
	zerolog.SetGlobalLevel(zerolog.Disabled)
	logging.SetComponentLevel("", true, zerolog.Disabled)
	db.SetDefaultDbName("mmmbbb")
}

// Env is one case's world.
type Env struct {
	T      *testing.T
	Seed   int64
	Rand   *rand.Rand
	Client *ent.Client
	Pub    pubsubpb.PublisherServer
	Sub    pubsubpb.SubscriberServer
	Ctx    context.Context // tagged with actor "main"
	Dir    string
	Epoch  time.Time
}

type seededReader struct {
	mu sync.Mutex
	r  *rand.Rand
}

func (s *seededReader) Read(p []byte) (int, error) {
	s.mu.Lock()
	defer s.mu.Unlock()
	return s.r.Read(p)
}

// Opts configure a case.
type Opts struct {
	Tick  time.Duration // virtual sleep per SQL statement (0 = none)
	Trace bool
}

// ScratchRoot returns the directory where case databases live.
func ScratchRoot() string {
	if d := os.Getenv("VERIF_SCRATCH"); d != "" {
		return d
	}
	return os.TempDir()
}

// RunCase runs f inside a fresh synctest bubble with a fresh database, seeded
// UUIDs, and the real servers.
func RunCase(t *testing.T, seed int64, o Opts, f func(e *Env)) {
	t.Helper()
	Pet()
	dir, err := os.MkdirTemp(ScratchRoot(), "vcase-")
	if err != nil {
		t.Fatalf("mkdtemp: %v", err)
	}
	defer os.RemoveAll(dir)
	synctest.Test(t, func(t *testing.T) {
		seam.C.Reset()
		seam.C.SetTick(o.Tick)
		seam.C.SetTrace(o.Trace)
		uuid.SetRand(&seededReader{r: rand.New(rand.NewSource(seed ^ 0x5eed))})
		defer uuid.SetRand(nil)
		// make sure no notifier state leaks from one case into the next
		actions.WakeAllInternal()

		e := &Env{T: t, Seed: seed, Rand: rand.New(rand.NewSource(seed)), Dir: dir, Epoch: time.Now()}
		e.Ctx = seam.WithActor(t.Context(), "main")
		e.Client = OpenClient(t, filepath.Join(dir, "db"))
		defer e.Client.Close()
		e.Pub, e.Sub = services.VerifServers(e.Client)
		f(e)
		actions.WakeAllInternal()
	})
}

// OpenClient opens (and migrates) an ent client on the given file through the
// seam driver and mmmbbb's own db.Open / DSN.
func OpenClient(t testing.TB, file string) *ent.Client {
	dsn := db.SQLiteDSN(file, true, false)
	conn, err := db.Open(seam.DriverName, dialect.SQLite, dsn)
	if err != nil {
		t.Fatalf("db.Open: %v", err)
	}
	client := ent.NewClient(ent.Driver(entsql.OpenDB(dialect.SQLite, conn)))
	if err := db.MigrateUpEnt(context.Background(), client.Schema); err != nil {
		t.Fatalf("migrate: %v", err)
	}
	return client
}

// RawDB gives the *sql.DB below the ent client.
func (e *Env) RawDB() *sql.DB { return e.Client.DB() }

// Actor returns a context tagged with the given actor name.
func (e *Env) Actor(name string) context.Context { return seam.WithActor(e.T.Context(), name) }

// Now is the virtual now.
func (e *Env) Now() time.Time { return time.Now() }

// SleepUntil sleeps (virtually) until the absolute instant epoch+off.
func (e *Env) SleepUntil(off time.Duration) {
	d := time.Until(e.Epoch.Add(off))
	if d > 0 {
		time.Sleep(d)
	}
}

// Quiesce blocks until every goroutine of the bubble is durably blocked.
// Goroutines that are merely inside the seam's statement tick (a 1 us virtual
// sleep) are not quiescent: let the tick elapse and wait again.
func Quiesce() {
	for {
		synctest.Wait()
		if seam.C.Ticking() == 0 {
			return
		}
		time.Sleep(time.Microsecond)
	}
}

// ---- wall-clock watchdog (inconclusive, never a verdict) -----------------

var (
	wdMu    sync.Mutex
	wdTimer *time.Timer
	wdLimit = 10 * time.Minute
	wdWhat  string
)

// StartWatchdog must be called from TestMain (outside any bubble).
func StartWatchdog(limit time.Duration, out io.Writer) {
	wdMu.Lock()
	defer wdMu.Unlock()
	wdLimit = limit
	wdTimer = time.AfterFunc(limit, func() {
		wdMu.Lock()
		what := wdWhat
		wdMu.Unlock()
		fmt.Fprintf(out, "INCONCLUSIVE watchdog fired after %v of wall time without progress (%s)\n", limit, what)
		buf := make([]byte, 1<<20)
		n := runtime.Stack(buf, true)
		fmt.Fprintf(os.Stderr, "%s\n", buf[:n])
		os.Exit(3)
	})
}

// Pet resets the watchdog; called at the start of each case.
func Pet() {
	wdMu.Lock()
	defer wdMu.Unlock()
	if wdTimer != nil {
		wdTimer.Reset(wdLimit)
	}
}

func SetWatchdogContext(s string) {
	wdMu.Lock()
	wdWhat = s
	wdMu.Unlock()
}
