package rigu

import (
	"fmt"
	"math/rand"
	"strings"
	"testing"
	"time"

	"go.6river.tech/mmmbbb/filter"

	"verif/harness/evd"
	"verif/harness/ref"
)

// ---- helpers around the real parser / evaluator ---------------------------

type parsed struct {
	f   *filter.Filter
	err error
}

// realParse parses with a wall-clock watchdog: a parser that does not return
// is a violation of "never hangs" (the one place where wall time is a verdict).
func realParse(s string) (f *filter.Filter, err error, hung bool, panicked any) {
	ch := make(chan parsed, 1)
	pc := make(chan any, 1)
	go func() {
		defer func() {
			if r := recover(); r != nil {
				pc <- r
			}
		}()
		f, err := filter.Parser.ParseString("verif", s)
		ch <- parsed{f, err}
	}()
	select {
	case p := <-ch:
		return p.f, p.err, false, nil
	case r := <-pc:
		return nil, nil, false, r
	case <-time.After(20 * time.Second):
		return nil, nil, true, nil
	}
}

func realEval(f *filter.Filter, attrs map[string]string) (res bool, err error, panicked any) {
	defer func() {
		if r := recover(); r != nil {
			panicked = r
		}
	}()
	res, err = f.Evaluate(attrs)
	return
}

func realPrint(f *filter.Filter) (s string, err error, panicked any) {
	defer func() {
		if r := recover(); r != nil {
			panicked = r
		}
	}()
	var b strings.Builder
	err = f.AsFilter(&b)
	return b.String(), err, nil
}

// ---- vocabularies ---------------------------------------------------------

var (
	coreNames = []string{"a", "b", "x y"}
	coreVals  = []string{"", "a", "ab"}
	// (the lower- and mixed-case look-alikes of the keywords are ordinary names:
	// keywords are case sensitive)
	wideNames = []string{"a", "b", "ab", "_", "é", "", "x y", "AND", "attributes", "NOT", "hasPrefix", "a.b", "a\"b", "0a", "日本", "and", "or", "not", "Not", "oR", "hasprefix", "Attributes", "A"}
	wideVals  = []string{"", "a", "ab", "b", "é", "\n", "\"", "\\", "a b", "\u0000", "😀"}
)

func basics(names, vals []string) []*ref.Node {
	var out []*ref.Node
	for _, n := range names {
		out = append(out, ref.Has(n))
		for _, v := range vals {
			out = append(out, ref.Eq(n, v), ref.Ne(n, v), ref.Prefix(n, v))
		}
	}
	return out
}

func withNot(ns []*ref.Node) []*ref.Node {
	out := append([]*ref.Node{}, ns...)
	for _, n := range ns {
		out = append(out, ref.Not(n))
	}
	return out
}

// attribute maps over the given names: each absent or one of vals
func attrMaps(names, vals []string) []map[string]string {
	out := []map[string]string{{}}
	for _, n := range names {
		var next []map[string]string
		for _, m := range out {
			next = append(next, m)
			for _, v := range vals {
				c := map[string]string{}
				for k, x := range m {
					c[k] = x
				}
				c[n] = v
				next = append(next, c)
			}
		}
		out = next
	}
	return out
}

// renderings of one AST in different concrete syntaxes
func renderings(n *ref.Node, r *rand.Rand) []string {
	toks := n.Tokens()
	out := []string{ref.Render(toks)}
	switch r.Intn(4) {
	case 0:
		out = append(out, ref.RenderSpaced(toks, "  "))
	case 1:
		out = append(out, ref.RenderSpaced(toks, "\n\t"))
	case 2:
		out = append(out, " "+ref.RenderSpaced(toks, " ")+" ")
	}
	return out
}

type semStats struct {
	filters, evals, unspecified, laws int64
}

// checkSemantics compares the real parser+evaluator with the reference on one
// filter text / AST over the given maps.
func checkSemantics(col *evd.Collector, n *ref.Node, text string, maps []map[string]string, st *semStats) bool {
	f, err, hung, pan := realParse(text)
	st.filters++
	if hung || pan != nil {
		col.ViolationFor("C08", "parser-hang-or-panic", fmt.Sprintf("filter %q: hung=%v panic=%v", text, hung, pan), map[string]any{"filter": text})
		return false
	}
	if err != nil {
		col.ViolationFor("C08", "valid-filter-rejected", fmt.Sprintf("grammar sentence %q rejected: %v", text, err), map[string]any{"filter": text, "ast": n.String()})
		return false
	}
	ok := true
	for _, m := range maps {
		want := n.Eval(m)
		got, eerr, pan := realEval(f, m)
		st.evals++
		if pan != nil || eerr != nil {
			col.Violation("evaluate-error", fmt.Sprintf("filter %q attrs %v: error %v panic %v", text, m, eerr, pan), map[string]any{"filter": text, "attrs": m})
			return false
		}
		got2, _, _ := realEval(f, m)
		if got2 != got {
			col.Violation("nondeterministic", fmt.Sprintf("filter %q attrs %v evaluated to %v then %v", text, m, got, got2), map[string]any{"filter": text, "attrs": m})
			ok = false
		}
		if want == ref.Unspec {
			st.unspecified++
			continue
		}
		if got != (want == ref.True) {
			col.Violation("wrong-result:"+shape(n), fmt.Sprintf("filter %q on attributes %v: mmmbbb says %v, the documented semantics say %v", text, m, got, want), map[string]any{"filter": text, "attrs": m, "reference": want.String(), "got": got})
			return false
		}
	}
	return ok
}

// shape is a coarse signature of an AST (node kinds only).
func shape(n *ref.Node) string {
	switch n.Kind {
	case ref.NHas:
		return "has"
	case ref.NEq:
		return "eq"
	case ref.NNe:
		return "ne"
	case ref.NPrefix:
		return "prefix"
	case ref.NNot:
		return "not(" + shape(n.Kids[0]) + ")"
	}
	op := "and"
	if n.Kind == ref.NOr {
		op = "or"
	}
	return op + fmt.Sprint(len(n.Kids))
}

func TestC07(t *testing.T) {
	cfg := evd.Env()
	col := evd.New("C07", cfg)
	defer col.Flush()
	r := rand.New(rand.NewSource(cfg.Seed*7919 + int64(cfg.Shard)))
	st := &semStats{}
	coreMaps := attrMaps(coreNames, []string{"", "a", "ab", "b"})
	terms := withNot(basics(coreNames, coreVals))
	idx := 0
	mine := func() bool { idx++; return cfg.Mine(idx) }
	exhaustive := true

	// 1. every basic expression over the wide vocabulary, with and without NOT / '-'
	for _, b := range basics(wideNames, wideVals) {
		for _, variant := range []int{0, 1, 2, 3} {
			if !mine() {
				continue
			}
			n := b
			switch variant {
			case 1:
				n = ref.Not(b)
			case 2:
				n = ref.Not(b)
				n.Dash = true
			case 3:
				c := *b
				c.QuoteNam = true
				n = &c
			}
			maps := attrMaps([]string{b.Name}, wideVals)
			// and maps that carry only a differently-cased spelling of the name: a
			// name is matched exactly
			for _, alt := range []string{strings.ToUpper(b.Name), strings.ToLower(b.Name)} {
				if alt != b.Name {
					maps = append(maps, attrMaps([]string{alt}, []string{"", "a", "ab"})...)
				}
			}
			for _, txt := range renderings(n, r) {
				if checkSemantics(col, n, txt, maps, st) {
					col.Case(evd.FP("wide", txt), true)
				}
			}
		}
	}
	// 2. exhaustive: all two-term AND / OR over the core vocabulary x all 125 maps
	for _, a := range terms {
		for _, b := range terms {
			for _, k := range []ref.NodeKind{ref.NAnd, ref.NOr} {
				if !mine() {
					continue
				}
				n := &ref.Node{Kind: k, Kids: []*ref.Node{a, b}}
				if checkSemantics(col, n, n.String(), coreMaps, st) {
					col.Case(evd.FP("pair", n.String()), true)
				}
			}
		}
	}
	// 3. three-term chains and nested shapes: exhaustive in thorough, sampled in quick
	n3 := cfg.N(6000, 0)
	if cfg.Thorough() {
		for _, a := range terms {
			for _, b := range terms {
				for _, c := range terms {
					if !mine() {
						continue
					}
					k := ref.NAnd
					if (idx/3)%2 == 0 {
						k = ref.NOr
					}
					n := &ref.Node{Kind: k, Kids: []*ref.Node{a, b, c}}
					if checkSemantics(col, n, n.String(), coreMaps, st) {
						col.Case(evd.FP("triple", n.String()), true)
					}
				}
			}
		}
	}
	nested := cfg.N(6000, 200000)
	for i := 0; i < n3+nested; i++ {
		if !mine() {
			continue
		}
		n := randomAST(r, 1+r.Intn(3), terms)
		for _, txt := range renderings(n, r) {
			if checkSemantics(col, n, txt, coreMaps, st) {
				col.Case(evd.FP("nested", txt), true)
			}
		}
	}
	// 4. boolean laws on the real evaluator alone
	for i := 0; i < cfg.N(4000, 100000); i++ {
		if !mine() {
			continue
		}
		f := randomAST(r, r.Intn(3), terms)
		g := randomAST(r, r.Intn(3), terms)
		checkLaws(col, f, g, coreMaps, st)
	}
	col.Add("relevant_events", st.evals)
	col.Add("ev_filters_parsed", st.filters)
	col.Add("ev_evaluations_compared", st.evals-st.unspecified)
	col.Add("ev_evaluations_unspecified_skipped", st.unspecified)
	col.Add("ev_law_instances", st.laws)
	if exhaustive && cfg.Shard == 0 {
		col.Add("exhaustive_complete", 1)
	}
	col.Sample(map[string]any{"filter": terms[7].String(), "maps": len(coreMaps)})
	col.Sample(map[string]any{"filter": ref.And(terms[3], ref.Not(ref.Or(terms[40], terms[11]))).String()})
}

func randomAST(r *rand.Rand, depth int, terms []*ref.Node) *ref.Node {
	if depth <= 0 {
		return terms[r.Intn(len(terms))]
	}
	switch r.Intn(5) {
	case 0:
		n := ref.Not(paren(randomAST(r, depth-1, terms)))
		n.Dash = r.Intn(3) == 0
		return n
	case 1, 2:
		k := 2 + r.Intn(3)
		kids := make([]*ref.Node, k)
		for i := range kids {
			kids[i] = randomAST(r, depth-1, terms)
		}
		return ref.And(kids...)
	default:
		k := 2 + r.Intn(3)
		kids := make([]*ref.Node, k)
		for i := range kids {
			kids[i] = randomAST(r, depth-1, terms)
		}
		return ref.Or(kids...)
	}
}

func paren(n *ref.Node) *ref.Node {
	c := *n
	c.Paren = true
	return &c
}

func evalText(col *evd.Collector, text string, maps []map[string]string) ([]bool, bool) {
	f, err, hung, pan := realParse(text)
	if err != nil || hung || pan != nil {
		col.ViolationFor("C08", "valid-filter-rejected", fmt.Sprintf("law operand %q not parsed: %v hung=%v panic=%v", text, err, hung, pan), map[string]any{"filter": text})
		return nil, false
	}
	out := make([]bool, len(maps))
	for i, m := range maps {
		v, e, p := realEval(f, m)
		if e != nil || p != nil {
			col.Violation("evaluate-error", fmt.Sprintf("filter %q attrs %v: error %v panic %v", text, m, e, p), map[string]any{"filter": text})
			return nil, false
		}
		out[i] = v
	}
	return out, true
}

func checkLaws(col *evd.Collector, f, g *ref.Node, maps []map[string]string, st *semStats) {
	pf, pg := paren(f), paren(g)
	type law struct{ name, lhs, rhs string }
	dash := ref.Not(pf)
	dash.Dash = true
	laws := []law{
		{"double-negation", ref.Not(paren(ref.Not(pf))).String(), f.String()},
		{"parenthesisation", pf.String(), f.String()},
		{"dash-is-not", dash.String(), ref.Not(pf).String()},
		{"and-commutes", ref.And(pf, pg).String(), ref.And(pg, pf).String()},
		{"or-commutes", ref.Or(pf, pg).String(), ref.Or(pg, pf).String()},
		{"de-morgan-and", ref.Not(paren(ref.And(pf, pg))).String(), ref.Or(ref.Not(pf), ref.Not(pg)).String()},
		{"de-morgan-or", ref.Not(paren(ref.Or(pf, pg))).String(), ref.And(ref.Not(pf), ref.Not(pg)).String()},
	}
	for _, l := range laws {
		a, ok1 := evalText(col, l.lhs, maps)
		b, ok2 := evalText(col, l.rhs, maps)
		if !ok1 || !ok2 {
			return
		}
		st.laws++
		for i := range a {
			if a[i] != b[i] {
				col.Violation("law:"+l.name, fmt.Sprintf("%s fails: %q = %v but %q = %v on attributes %v", l.name, l.lhs, a[i], l.rhs, b[i], maps[i]), map[string]any{"lhs": l.lhs, "rhs": l.rhs, "attrs": maps[i]})
				return
			}
		}
		col.Case(evd.FP("law", l.name, l.lhs), true)
	}
}
