package rigu

import (
	"os"
	"testing"
)

func TestMain(m *testing.M) { os.Exit(m.Run()) }
