package rigu

import (
	"context"
	"errors"
	"fmt"
	"math"
	"math/rand"
	"runtime"
	"sync"
	"sync/atomic"
	"testing"
	"time"

	"google.golang.org/grpc"

	"go.6river.tech/mmmbbb/faults"
	mbgrpc "go.6river.tech/mmmbbb/grpc"
	"go.6river.tech/mmmbbb/grpc/pubsubpb"

	"verif/harness/evd"
)

type faultErr struct{ idx int }

func (e *faultErr) Error() string { return fmt.Sprintf("injected fault #%d", e.idx) }

var setSeq int64

// waitPruned polls Current() until the asynchronous prune has settled.
func settledCurrent(s *faults.Set, wantListed func(map[string][]faults.Description) bool) map[string][]faults.Description {
	var cur map[string][]faults.Description
	for i := 0; i < 2000; i++ {
		cur = s.Current()
		if wantListed(cur) {
			return cur
		}
		runtime.Gosched()
		if i > 100 {
			time.Sleep(50 * time.Microsecond)
		}
	}
	return cur
}

func TestC18(t *testing.T) {
	cfg := evd.Env()
	col := evd.New("C18", cfg)
	defer col.Flush()
	r := rand.New(rand.NewSource(cfg.Seed*101 + int64(cfg.Shard)))
	trials := cfg.N(6000, 2000000)
	counts := []int64{0, 1, 2, 7, 64, math.MaxInt64}
	callers := []int{1, 2, 10, 64}
	var contended, calls int64
	for tr := 0; tr < trials; tr++ {
		if !cfg.Mine(tr) {
			continue
		}
		s := faults.NewSet(fmt.Sprintf("verif%d", atomic.AddInt64(&setSeq, 1)))
		nd := 1 + r.Intn(3)
		if r.Intn(2) == 0 {
			nd = 1
		}
		matchParams := faults.Parameters{"a": "1", "b": "2", "c": "3"}
		descParams := []faults.Parameters{{}, {"a": "1"}, {"a": "1", "b": "2"}, nil, {"c": "3"}}
		fails := make([]int64, nd)
		ns := make([]int64, nd)
		var sumN int64
		for d := 0; d < nd; d++ {
			d := d
			ns[d] = counts[r.Intn(len(counts))]
			if sumN+ns[d] < sumN {
				sumN = math.MaxInt64
			} else {
				sumN += ns[d]
			}
			s.Add(faults.Description{Operation: "op", Parameters: descParams[r.Intn(len(descParams))], Count: ns[d], FaultDescription: fmt.Sprint(d),
				OnFault: func(faults.Description, faults.Parameters) error { atomic.AddInt64(&fails[d], 1); return &faultErr{d} }})
		}
		// a decoy for another operation must never fire
		var decoyFired int64
		s.Add(faults.Description{Operation: "other", Count: 5, OnFault: func(faults.Description, faults.Parameters) error { atomic.AddInt64(&decoyFired, 1); return errors.New("decoy") }})
		nc := callers[r.Intn(len(callers))]
		// call kinds: matching (superset of every description), or not matching (missing / different value)
		kinds := make([]int, nc)
		nMatching := 0
		for i := range kinds {
			if r.Intn(4) != 0 {
				kinds[i] = 0
				nMatching++
			} else {
				kinds[i] = 1 + r.Intn(3)
			}
		}
		nonMatching := []faults.Parameters{{"a": "x", "b": "x", "c": "x"}, {"d": "4"}, {}}
		// every description with non-empty parameters is a subset of matchParams; an
		// empty description matches everything, so non-matching calls are only used
		// when no description is empty
		anyEmpty := false
		for _, l := range s.Current()["op"] {
			if len(l.Parameters) == 0 {
				anyEmpty = true
			}
		}
		results := make([]error, nc)
		var start, done sync.WaitGroup
		start.Add(1)
		for i := 0; i < nc; i++ {
			done.Add(1)
			go func(i int) {
				defer done.Done()
				p := matchParams
				op := "op"
				if kinds[i] != 0 {
					if anyEmpty {
						op = "op2" // a different operation never matches
					} else {
						p = nonMatching[kinds[i]-1]
					}
				}
				start.Wait()
				results[i] = s.Check(op, p)
			}(i)
		}
		start.Done()
		done.Wait()
		calls += int64(nc)
		// oracle
		var total int64
		for d := range fails {
			total += atomic.LoadInt64(&fails[d])
		}
		want := sumN
		if int64(nMatching) < want {
			want = int64(nMatching)
		}
		failed := 0
		for i, e := range results {
			if e != nil {
				failed++
				if kinds[i] != 0 {
					col.Violation("non-matching-call-failed", fmt.Sprintf("a call that does not match any fault description got %v (descriptions %v)", e, ns), map[string]any{"counts": ns, "callers": nc})
				}
			}
		}
		wit := map[string]any{"counts": ns, "callers": nc, "matching_calls": nMatching, "failed_calls": failed, "fired_per_description": fails}
		if int64(failed) != want || total != want {
			sig := "too-few-failures"
			if int64(failed) > want {
				sig = "too-many-failures"
			}
			if nd > 1 {
				sig += ":overlapping"
			}
			col.Violation(sig, fmt.Sprintf("%d descriptions with counts %v, %d concurrent callers of which %d match: %d calls failed (OnFault ran %d times), exactly %d expected", nd, ns, nc, nMatching, failed, total, want), wit)
		}
		for d := range fails {
			if atomic.LoadInt64(&fails[d]) > ns[d] {
				col.Violation("description-fired-more-than-count", fmt.Sprintf("description %d with count %d fired %d times", d, ns[d], fails[d]), wit)
			}
		}
		if decoyFired != 0 {
			col.Violation("other-operation-fired", "a fault for another operation fired", wit)
		}
		// listing: exhausted ones disappear, the others show what is left
		wantLeft := map[string]int64{}
		for d := range fails {
			if left := ns[d] - atomic.LoadInt64(&fails[d]); left > 0 {
				wantLeft[fmt.Sprint(d)] = left
			}
		}
		ok := func(cur map[string][]faults.Description) bool {
			if len(cur["op"]) != len(wantLeft) {
				return false
			}
			for _, d := range cur["op"] {
				if wantLeft[d.FaultDescription] != d.Count {
					return false
				}
			}
			return true
		}
		if cur := settledCurrent(s, ok); !ok(cur) {
			var got []string
			for _, d := range cur["op"] {
				got = append(got, fmt.Sprintf("#%s:%d", d.FaultDescription, d.Count))
			}
			col.Violation("listing-wrong", fmt.Sprintf("after all calls returned Current() lists %v, expected remaining %v", got, wantLeft), wit)
		}
		if int64(nMatching) > sumN && nc > 1 && sumN > 0 {
			contended++
		}
		col.Case(evd.FP(ns, nc, nMatching, nd), nc > 1)
		if tr < 3 {
			col.Sample(wit)
		}
	}
	// gRPC level: request string fields become parameters, under every field-name form
	set := faults.NewSet(fmt.Sprintf("verif%d", atomic.AddInt64(&setSeq, 1)))
	inj := mbgrpc.UnaryFaultInjector(set)
	call := func(method string, req any) error {
		_, err := inj(context.Background(), req, &grpc.UnaryServerInfo{FullMethod: "/google.pubsub.v1.Subscriber/" + method}, func(ctx context.Context, req any) (any, error) { return "ok", nil })
		return err
	}
	if cfg.Shard == 0 {
		sub := "projects/p/subscriptions/s"
		for _, key := range []string{"subscription", "google.pubsub.v1.PullRequest.subscription"} {
			var fired int64
			set.Add(faults.Description{Operation: "Pull", Parameters: faults.Parameters{key: sub}, Count: 2, OnFault: func(faults.Description, faults.Parameters) error { fired++; return errors.New("boom") }})
			errs := 0
			for i := 0; i < 5; i++ {
				if call("Pull", &pubsubpb.PullRequest{Subscription: sub, MaxMessages: 1}) != nil {
					errs++
				}
				if call("Pull", &pubsubpb.PullRequest{Subscription: sub + "x", MaxMessages: 1}) != nil {
					col.Violation("grpc-non-matching-failed", "Pull on another subscription failed by a fault keyed on "+key, nil)
				}
				if call("Acknowledge", &pubsubpb.AcknowledgeRequest{Subscription: sub}) != nil {
					col.Violation("grpc-other-method-failed", "Acknowledge failed by a fault injected for Pull", nil)
				}
			}
			if errs != 2 {
				col.Violation("grpc-count", fmt.Sprintf("fault keyed on %q with count 2 failed %d of 5 matching Pull calls", key, errs), nil)
			}
			col.Case(evd.FP("grpc", key), true)
		}
	}
	col.Add("ev_calls", calls)
	col.Add("ev_trials_with_more_matching_callers_than_count", contended)
	col.Add("relevant_events", contended)
}
