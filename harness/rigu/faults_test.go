package rigu

import (
	"context"
	"errors"
	"fmt"
	"github.com/prometheus/client_golang/prometheus"
	"math"
	"math/rand"
	"runtime"
	"sync"
	"sync/atomic"
	"testing"
	"time"

	"google.golang.org/grpc"

	"go.6river.tech/mmmbbb/faults"
	mbgrpc "go.6river.tech/mmmbbb/grpc"
	"go.6river.tech/mmmbbb/grpc/pubsubpb"

	"verif/harness/evd"
)

type faultErr struct{ idx int }

func (e *faultErr) Error() string { return fmt.Sprintf("injected fault #%d", e.idx) }

var setSeq int64

// waitPruned polls Current() until the asynchronous prune has settled.
func settledCurrent(s *faults.Set, wantListed func(map[string][]faults.Description) bool) map[string][]faults.Description {
	var cur map[string][]faults.Description
	for i := 0; i < 2000; i++ {
		cur = s.Current()
		if wantListed(cur) {
			return cur
		}
		runtime.Gosched()
		if i > 100 {
			time.Sleep(50 * time.Microsecond)
		}
	}
	return cur
}

func TestC18(t *testing.T) {
	cfg := evd.Env()
	col := evd.New("C18", cfg)
	defer col.Flush()
	r := rand.New(rand.NewSource(cfg.Seed*101 + int64(cfg.Shard)))
	trials := cfg.N(6000, 2000000)
	counts := []int64{0, 1, 2, 7, 64, math.MaxInt64}
	callers := []int{1, 2, 10, 64}
	var contended, calls int64
	for tr := 0; tr < trials; tr++ {
		if !cfg.Mine(tr) {
			continue
		}
		s := faults.NewSet(fmt.Sprintf("verif%d", atomic.AddInt64(&setSeq, 1)))
		nd := 1 + r.Intn(3)
		if r.Intn(2) == 0 {
			nd = 1
		}
		matchParams := faults.Parameters{"a": "1", "b": "2", "c": "3"}
		descParams := []faults.Parameters{{}, {"a": "1"}, {"a": "1", "b": "2"}, nil, {"c": "3"}}
		fails := make([]int64, nd)
		ns := make([]int64, nd)
		var sumN int64
		for d := 0; d < nd; d++ {
			d := d
			ns[d] = counts[r.Intn(len(counts))]
			if sumN+ns[d] < sumN {
				sumN = math.MaxInt64
			} else {
				sumN += ns[d]
			}
			s.Add(faults.Description{Operation: "op", Parameters: descParams[r.Intn(len(descParams))], Count: ns[d], FaultDescription: fmt.Sprint(d),
				OnFault: func(faults.Description, faults.Parameters) error { atomic.AddInt64(&fails[d], 1); return &faultErr{d} }})
		}
		// a decoy for another operation must never fire
		var decoyFired int64
		s.Add(faults.Description{Operation: "other", Count: 5, OnFault: func(faults.Description, faults.Parameters) error {
			atomic.AddInt64(&decoyFired, 1)
			return errors.New("decoy")
		}})
		nc := callers[r.Intn(len(callers))]
		// call kinds: matching (superset of every description), or not matching (missing / different value)
		kinds := make([]int, nc)
		nMatching := 0
		for i := range kinds {
			if r.Intn(4) != 0 {
				kinds[i] = 0
				nMatching++
			} else {
				kinds[i] = 1 + r.Intn(3)
			}
		}
		nonMatching := []faults.Parameters{{"a": "x", "b": "x", "c": "x"}, {"d": "4"}, {}}
		// every description with non-empty parameters is a subset of matchParams; an
		// empty description matches everything, so non-matching calls are only used
		// when no description is empty
		anyEmpty := false
		for _, l := range s.Current()["op"] {
			if len(l.Parameters) == 0 {
				anyEmpty = true
			}
		}
		results := make([]error, nc)
		var start, done sync.WaitGroup
		start.Add(1)
		for i := 0; i < nc; i++ {
			done.Add(1)
			go func(i int) {
				defer done.Done()
				p := matchParams
				op := "op"
				if kinds[i] != 0 {
					if anyEmpty {
						op = "op2" // a different operation never matches
					} else {
						p = nonMatching[kinds[i]-1]
					}
				}
				start.Wait()
				results[i] = s.Check(op, p)
			}(i)
		}
		start.Done()
		done.Wait()
		calls += int64(nc)
		// oracle
		var total int64
		for d := range fails {
			total += atomic.LoadInt64(&fails[d])
		}
		want := sumN
		if int64(nMatching) < want {
			want = int64(nMatching)
		}
		failed := 0
		for i, e := range results {
			if e != nil {
				failed++
				if kinds[i] != 0 {
					col.Violation("non-matching-call-failed", fmt.Sprintf("a call that does not match any fault description got %v (descriptions %v)", e, ns), map[string]any{"counts": ns, "callers": nc})
				}
			}
		}
		wit := map[string]any{"counts": ns, "callers": nc, "matching_calls": nMatching, "failed_calls": failed, "fired_per_description": fails}
		if int64(failed) != want || total != want {
			sig := "too-few-failures"
			if int64(failed) > want {
				sig = "too-many-failures"
			}
			if nd > 1 {
				sig += ":overlapping"
			}
			col.Violation(sig, fmt.Sprintf("%d descriptions with counts %v, %d concurrent callers of which %d match: %d calls failed (OnFault ran %d times), exactly %d expected", nd, ns, nc, nMatching, failed, total, want), wit)
		}
		for d := range fails {
			if atomic.LoadInt64(&fails[d]) > ns[d] {
				col.Violation("description-fired-more-than-count", fmt.Sprintf("description %d with count %d fired %d times", d, ns[d], fails[d]), wit)
			}
		}
		if decoyFired != 0 {
			col.Violation("other-operation-fired", "a fault for another operation fired", wit)
		}
		// listing: exhausted ones disappear, the others show what is left
		wantLeft := map[string]int64{}
		for d := range fails {
			if left := ns[d] - atomic.LoadInt64(&fails[d]); left > 0 {
				wantLeft[fmt.Sprint(d)] = left
			}
		}
		ok := func(cur map[string][]faults.Description) bool {
			if len(cur["op"]) != len(wantLeft) {
				return false
			}
			for _, d := range cur["op"] {
				if wantLeft[d.FaultDescription] != d.Count {
					return false
				}
			}
			return true
		}
		if cur := settledCurrent(s, ok); !ok(cur) {
			var got []string
			for _, d := range cur["op"] {
				got = append(got, fmt.Sprintf("#%s:%d", d.FaultDescription, d.Count))
			}
			col.Violation("listing-wrong", fmt.Sprintf("after all calls returned Current() lists %v, expected remaining %v", got, wantLeft), wit)
		}
		if int64(nMatching) > sumN && nc > 1 && sumN > 0 {
			contended++
		}
		col.Case(evd.FP(ns, nc, nMatching, nd), nc > 1)
		if tr < 3 {
			col.Sample(wit)
		}
	}
	// gRPC level: request string fields become parameters, under every field-name form
	set := faults.NewSet(fmt.Sprintf("verif%d", atomic.AddInt64(&setSeq, 1)))
	inj := mbgrpc.UnaryFaultInjector(set)
	call := func(method string, req any) error {
		_, err := inj(context.Background(), req, &grpc.UnaryServerInfo{FullMethod: "/google.pubsub.v1.Subscriber/" + method}, func(ctx context.Context, req any) (any, error) { return "ok", nil })
		return err
	}
	if cfg.Shard == 0 {
		sub := "projects/p/subscriptions/s"
		for _, key := range []string{"subscription", "google.pubsub.v1.PullRequest.subscription"} {
			var fired int64
			set.Add(faults.Description{Operation: "Pull", Parameters: faults.Parameters{key: sub}, Count: 2, OnFault: func(faults.Description, faults.Parameters) error { fired++; return errors.New("boom") }})
			errs := 0
			for i := 0; i < 5; i++ {
				if call("Pull", &pubsubpb.PullRequest{Subscription: sub, MaxMessages: 1}) != nil {
					errs++
				}
				if call("Pull", &pubsubpb.PullRequest{Subscription: sub + "x", MaxMessages: 1}) != nil {
					col.Violation("grpc-non-matching-failed", "Pull on another subscription failed by a fault keyed on "+key, nil)
				}
				if call("Acknowledge", &pubsubpb.AcknowledgeRequest{Subscription: sub}) != nil {
					col.Violation("grpc-other-method-failed", "Acknowledge failed by a fault injected for Pull", nil)
				}
			}
			if errs != 2 {
				col.Violation("grpc-count", fmt.Sprintf("fault keyed on %q with count 2 failed %d of 5 matching Pull calls", key, errs), nil)
			}
			col.Case(evd.FP("grpc", key), true)
		}
	}
	// server-streaming level (grpc/faults.go:StreamFaultInjector): the same exact-count
	// guarantee for the three operations of a stream - its start, every RecvMsg
	// (checked before the receive without parameters and after it with the received
	// message's string fields) and every SendMsg - with concurrent streams racing
	streamCalls := c18Streams(cfg, col, r)
	col.Add("ev_stream_operations", streamCalls)
	col.Add("ev_injections_racing_the_pruning_of_exhausted_faults", c18AddDuringPrune(cfg, col, r))
	col.Add("ev_calls", calls)
	col.Add("ev_trials_with_more_matching_callers_than_count", contended)
	col.Add("relevant_events", contended)
}

// fakeServerStream feeds a scripted sequence of client messages to the handler.
type fakeServerStream struct {
	grpc.ServerStream
	ctx   context.Context
	in    []*pubsubpb.StreamingPullRequest
	recvd int
	sent  int
}

func (f *fakeServerStream) Context() context.Context { return f.ctx }
func (f *fakeServerStream) RecvMsg(m any) error {
	if f.recvd >= len(f.in) {
		return errors.New("fake stream: no more client messages")
	}
	dst := m.(*pubsubpb.StreamingPullRequest)
	dst.Reset()
	dst.Subscription = f.in[f.recvd].Subscription
	dst.ClientId = f.in[f.recvd].ClientId
	dst.AckIds = f.in[f.recvd].AckIds
	f.recvd++
	return nil
}
func (f *fakeServerStream) SendMsg(m any) error { f.sent++; return nil }

func c18Streams(cfg evd.Config, col *evd.Collector, r *rand.Rand) int64 {
	const svc = "google.pubsub.v1.Subscriber"
	subA, subB := "projects/p/subscriptions/a", "projects/p/subscriptions/b"
	type shape struct {
		op      string            // faulted operation
		params  faults.Parameters // of the description
		matches string            // which calls match: all-starts | no-call | all-recv | recv-of-sub-a | all-send
	}
	shapes := []shape{
		{"StreamingPull", nil, "all-starts"},
		{"StreamingPull", faults.Parameters{svc: "StreamingPull"}, "all-starts"},
		{"StreamingPull", faults.Parameters{"subscription": subA}, "no-call"},
		{"StreamingPull:RecvMsg", faults.Parameters{}, "all-recv"},
		{"StreamingPull:RecvMsg", faults.Parameters{"subscription": subA}, "recv-of-sub-a"},
		{"StreamingPull:RecvMsg", faults.Parameters{"google.pubsub.v1.StreamingPullRequest.subscription": subA}, "recv-of-sub-a"},
		{"StreamingPull:RecvMsg", faults.Parameters{"subscription": subA, "client_id": "c1"}, "recv-of-sub-a"},
		{"StreamingPull:RecvMsg", faults.Parameters{"subscription": subA, "clientId": "nobody"}, "no-call"},
		{"StreamingPull:SendMsg", nil, "all-send"},
		{"StreamingPull:SendMsg", faults.Parameters{svc: "StreamingPull"}, "all-send"},
		{"StreamingPull:SendMsg", faults.Parameters{"subscription": subA}, "no-call"},
		{"Pull", nil, "no-call"},
		{"StreamingPull:Recv", nil, "no-call"},
	}
	trials := cfg.N(600, 60000)
	var ops, lateTrials int64
	for tr := 0; tr < trials; tr++ {
		if !cfg.Mine(tr) {
			continue
		}
		set := faults.NewSet(fmt.Sprintf("verif%d", atomic.AddInt64(&setSeq, 1)))
		inj := mbgrpc.StreamFaultInjector(set)
		sh := shapes[r.Intn(len(shapes))]
		n := []int64{0, 1, 2, 5, 20, math.MaxInt64}[r.Intn(6)]
		var fired int64
		desc := faults.Description{Operation: sh.op, Parameters: sh.params, Count: n,
			OnFault: func(faults.Description, faults.Parameters) error { atomic.AddInt64(&fired, 1); return &faultErr{0} }}
		// a third of the trials inject the fault while the streams are already open
		// (opened with nothing in the set): it must fire on them all the same
		late := r.Intn(3) == 0
		if !late {
			set.Add(desc)
		}
		k := []int{1, 2, 8, 24}[r.Intn(4)]
		var entered sync.WaitGroup
		goCh := make(chan struct{})
		if late {
			entered.Add(k)
		}
		recvs, sends := 1+r.Intn(4), r.Intn(4)
		onA := make([]bool, k)
		var failedStart, failedRecv, failedSend, startedA, started, otherErr int64
		var start, done sync.WaitGroup
		start.Add(1)
		for i := 0; i < k; i++ {
			onA[i] = r.Intn(3) != 0
			done.Add(1)
			go func(i int) {
				defer done.Done()
				sub := subB
				if onA[i] {
					sub = subA
				}
				fs := &fakeServerStream{ctx: context.Background(), in: []*pubsubpb.StreamingPullRequest{{Subscription: sub, ClientId: "c1"}}}
				for j := 1; j < recvs+2; j++ {
					fs.in = append(fs.in, &pubsubpb.StreamingPullRequest{AckIds: []string{"x"}})
				}
				start.Wait()
				err := inj(nil, fs, &grpc.StreamServerInfo{FullMethod: "/" + svc + "/StreamingPull", IsClientStream: true, IsServerStream: true},
					func(srv any, ss grpc.ServerStream) error {
						atomic.AddInt64(&started, 1)
						if onA[i] {
							atomic.AddInt64(&startedA, 1)
						}
						if late {
							entered.Done()
							<-goCh
						}
						for j := 0; j < recvs; j++ {
							var m pubsubpb.StreamingPullRequest
							if err := ss.RecvMsg(&m); err != nil {
								var fe *faultErr
								if errors.As(err, &fe) {
									atomic.AddInt64(&failedRecv, 1)
								} else {
									atomic.AddInt64(&otherErr, 1)
								}
							}
						}
						for j := 0; j < sends; j++ {
							if err := ss.SendMsg(&pubsubpb.StreamingPullResponse{}); err != nil {
								var fe *faultErr
								if errors.As(err, &fe) {
									atomic.AddInt64(&failedSend, 1)
								} else {
									atomic.AddInt64(&otherErr, 1)
								}
							}
						}
						return nil
					})
				if err != nil {
					var fe *faultErr
					if errors.As(err, &fe) {
						atomic.AddInt64(&failedStart, 1)
					} else {
						atomic.AddInt64(&otherErr, 1)
					}
				}
			}(i)
		}
		start.Done()
		if late {
			entered.Wait()
			set.Add(desc)
			close(goCh)
			lateTrials++
		}
		done.Wait()
		ops += int64(k) + started*int64(recvs+sends)
		// the first RecvMsg of a stream on subscription a is the only one carrying it
		var matching int64
		switch sh.matches {
		case "all-starts":
			matching = int64(k)
			if late {
				matching = 0 // every stream had started before the fault existed
			}
		case "all-recv":
			matching = started * int64(recvs)
		case "recv-of-sub-a":
			matching = startedA
		case "all-send":
			matching = started * int64(sends)
		}
		want := n
		if matching < want {
			want = matching
		}
		got := map[string]int64{"start": failedStart, "recv": failedRecv, "send": failedSend}
		wantBy := map[string]int64{"start": 0, "recv": 0, "send": 0}
		switch sh.matches {
		case "all-starts":
			wantBy["start"] = want
		case "all-recv", "recv-of-sub-a":
			wantBy["recv"] = want
		case "all-send":
			wantBy["send"] = want
		}
		wit := map[string]any{"operation": sh.op, "parameters": sh.params, "count": n, "streams": k, "recv_per_stream": recvs, "send_per_stream": sends, "matching_calls": matching, "failed": got, "on_fault_ran": fired}
		for _, kind := range []string{"start", "recv", "send"} {
			switch {
			case got[kind] > wantBy[kind] && wantBy[kind] == 0 && (sh.matches == "no-call" || got[kind] > 0):
				col.Violation("stream:non-matching-call-failed:"+kind, fmt.Sprintf("fault for %q %v (count %d): %d %s operations failed although none of them matches", sh.op, sh.params, n, got[kind], kind), wit)
			case got[kind] != wantBy[kind]:
				col.Violation("stream:wrong-count:"+kind, fmt.Sprintf("fault for %q %v with count %d, %d matching %s operations on %d concurrent streams: %d failed, exactly %d expected", sh.op, sh.params, n, matching, kind, k, got[kind], wantBy[kind]), wit)
			}
		}
		if fired != want {
			col.Violation("stream:on-fault-count", fmt.Sprintf("fault for %q with count %d and %d matching operations: OnFault ran %d times", sh.op, n, matching, fired), wit)
		}
		if otherErr != 0 {
			col.Inconclusive(fmt.Sprintf("fake stream returned %d unexpected errors", otherErr))
		}
		left := n - want
		ok := func(cur map[string][]faults.Description) bool {
			l := cur[sh.op]
			if left == 0 {
				return len(l) == 0
			}
			return len(l) == 1 && l[0].Count == left
		}
		if cur := settledCurrent(set, ok); !ok(cur) {
			col.Violation("stream:listing-wrong", fmt.Sprintf("after the streams ended the fault for %q lists %v, expected remaining count %d", sh.op, cur[sh.op], left), wit)
		}
		col.Case(evd.FP("stream", sh.op, fmt.Sprint(sh.params), n, k, recvs, sends, late), k > 1 && matching > 0)
	}
	col.Add("ev_stream_trials_with_the_fault_injected_into_open_streams", lateTrials)
	return ops
}

// c18AddDuringPrune: injections that arrive while exhausted faults of the same
// operation are being cleaned away. Every exhaustion starts an asynchronous
// clean-up; an injection acknowledged at any moment of it must still be there
// afterwards - listed with its full count and firing exactly that often.
var c18Scrapes int64

func c18AddDuringPrune(cfg evd.Config, col *evd.Collector, r *rand.Rand) int64 {
	trials := cfg.N(3000, 300000)
	var added int64
	for tr := 0; tr < trials; tr++ {
		if !cfg.Mine(tr) {
			continue
		}
		set := faults.NewSet(fmt.Sprintf("verif%d", atomic.AddInt64(&setSeq, 1)))
		m := 2 + r.Intn(10)
		// m one-shot faults, each keyed on its own parameter value
		for i := 0; i < m; i++ {
			set.Add(faults.Description{Operation: "op", Parameters: faults.Parameters{"k": fmt.Sprint("x", i)}, Count: 1,
				OnFault: func(faults.Description, faults.Parameters) error { return &faultErr{0} }})
		}
		late := 1 + r.Intn(8)
		lateCount := int64(1 + r.Intn(3))
		fired := make([]int64, late)
		var start, done sync.WaitGroup
		start.Add(1)
		// the callers exhaust the one-shot faults (each exhaustion starts a clean-up) ...
		for i := 0; i < m; i++ {
			done.Add(1)
			go func(i int) {
				defer done.Done()
				start.Wait()
				_ = set.Check("op", faults.Parameters{"k": fmt.Sprint("x", i)})
			}(i)
		}
		// ... while new faults for the same operation are injected
		done.Add(1)
		go func() {
			defer done.Done()
			start.Wait()
			for j := 0; j < late; j++ {
				j := j
				set.Add(faults.Description{Operation: "op", Parameters: faults.Parameters{"k": fmt.Sprint("late", j)}, Count: lateCount, FaultDescription: fmt.Sprint("late", j),
					OnFault: func(faults.Description, faults.Parameters) error { atomic.AddInt64(&fired[j], 1); return &faultErr{j} }})
				runtime.Gosched()
			}
		}()
		// in half of the trials the metrics endpoint is scraped all the while (the
		// collector walks the same lists, with a consumer that takes its time)
		var scr sync.WaitGroup
		stop := make(chan struct{})
		var mch chan prometheus.Metric
		if tr%2 == 0 {
			mch = make(chan prometheus.Metric)
			coll := faults.NewActiveFaultsCollector(set)
			go func() {
				for range mch {
					runtime.Gosched()
				}
			}()
			scr.Add(1)
			go func() {
				defer scr.Done()
				start.Wait()
				for {
					select {
					case <-stop:
						return
					default:
					}
					coll.Collect(mch)
					atomic.AddInt64(&c18Scrapes, 1)
				}
			}()
		}
		start.Done()
		done.Wait()
		close(stop)
		scr.Wait()
		if mch != nil {
			close(mch)
		}
		added += int64(late)
		ok := func(cur map[string][]faults.Description) bool { return len(cur["op"]) == late }
		cur := settledCurrent(set, ok)
		listed := map[string]int64{}
		for _, d := range cur["op"] {
			listed[d.Parameters["k"]] = d.Count
		}
		for j := 0; j < late; j++ {
			k := fmt.Sprint("late", j)
			if c, there := listed[k]; !there || c != lateCount {
				col.Violation("injected-while-pruning:not-listed", fmt.Sprintf("a fault injected (count %d) while %d exhausted faults of the same operation were being cleaned away is listed as %v afterwards (whole listing: %v)", lateCount, m, listed[k], listed), map[string]any{"one_shot_faults": m, "late_injections": late})
				break
			}
			var failed int64
			for c := int64(0); c < lateCount+2; c++ {
				if set.Check("op", faults.Parameters{"k": k}) != nil {
					failed++
				}
			}
			if failed != lateCount || atomic.LoadInt64(&fired[j]) != lateCount {
				col.Violation("injected-while-pruning:wrong-count", fmt.Sprintf("a fault injected with count %d while exhausted faults were being cleaned away failed %d of %d matching calls", lateCount, failed, lateCount+2), map[string]any{"one_shot_faults": m, "late_injections": late})
				break
			}
		}
		col.Case(evd.FP("add-during-prune", m, late, lateCount), true)
	}
	col.Add("ev_metrics_scrapes_racing_injections_and_pruning", atomic.LoadInt64(&c18Scrapes))
	return added
}
