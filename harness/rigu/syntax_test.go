package rigu

import (
	"fmt"
	"math/rand"
	"strings"
	"testing"

	"verif/harness/evd"
	"verif/harness/ref"
)

var mutVocab = []ref.Tok{
	ref.Ident("attributes"), ref.Ident("hasPrefix"), ref.Ident("AND"), ref.Ident("OR"), ref.Ident("NOT"),
	ref.Ident("a"), ref.Ident("b"), ref.Str(""), ref.Str("a"), ref.Str("x y"),
	ref.P(":"), ref.P("."), ref.P("="), ref.P("!="), ref.P("("), ref.P(")"), ref.P(","), ref.P("-"),
}

// unspecifiedSeq: a keyword-like bare identifier in an attribute-name position.
func unspecifiedSeq(toks []ref.Tok) bool {
	for i := 1; i < len(toks); i++ {
		if toks[i].Kind == ref.TIdent && ref.KeywordLike(toks[i].Val) && toks[i-1].Kind == ref.TPunct && (toks[i-1].Val == ":" || toks[i-1].Val == ".") {
			return true
		}
	}
	return false
}

type synStats struct{ sentences, mutants, accepted, rejected, skipped, roundtrips, raw int64 }

var rtMaps = attrMaps([]string{"a", "b", "x y"}, []string{"", "a", "ab", "x y"})

// checkRoundTrip: print -> parse gives an equivalent filter, printing is idempotent.
func checkRoundTrip(col *evd.Collector, text string, st *synStats) {
	f, err, hung, pan := realParse(text)
	if err != nil || hung || pan != nil {
		return
	}
	printed, perr, ppan := realPrint(f)
	if perr != nil || ppan != nil {
		col.Violation("print-error", fmt.Sprintf("accepted filter %q cannot be printed: %v %v", text, perr, ppan), map[string]any{"filter": text})
		return
	}
	f2, err2, hung2, pan2 := realParse(printed)
	if err2 != nil || hung2 || pan2 != nil {
		col.Violation("roundtrip-unparseable", fmt.Sprintf("filter %q prints as %q which does not parse: %v", text, printed, err2), map[string]any{"filter": text, "printed": printed})
		return
	}
	for _, m := range rtMaps {
		a, _, _ := realEval(f, m)
		b, _, _ := realEval(f2, m)
		if a != b {
			col.Violation("roundtrip-changes-meaning", fmt.Sprintf("filter %q prints as %q; on %v they evaluate to %v and %v", text, printed, m, a, b), map[string]any{"filter": text, "printed": printed, "attrs": m})
			return
		}
	}
	printed2, _, _ := realPrint(f2)
	if printed2 != printed {
		col.Violation("print-not-idempotent", fmt.Sprintf("filter %q prints as %q, which re-prints as %q", text, printed, printed2), map[string]any{"filter": text})
		return
	}
	st.roundtrips++
}

func checkAcceptance(col *evd.Collector, toks []ref.Tok, st *synStats, what string) {
	if unspecifiedSeq(toks) {
		st.skipped++
		return
	}
	text := ref.Render(toks)
	want := ref.Accepts(toks)
	_, err, hung, pan := realParse(text)
	st.mutants++
	if hung || pan != nil {
		col.Violation("parser-hang-or-panic", fmt.Sprintf("input %q: hung=%v panic=%v", text, hung, pan), map[string]any{"input": text})
		return
	}
	got := err == nil
	if got {
		st.accepted++
	} else {
		st.rejected++
	}
	if got != want {
		sig := "accepts-non-sentence"
		if want {
			sig = "rejects-sentence"
		}
		col.Violation(sig+":"+what, fmt.Sprintf("input %q (tokens %v): mmmbbb accepted=%v (%v), the documented grammar says %v", text, toks, got, err, want), map[string]any{"input": text, "reference_accepts": want, "accepted": got})
		return
	}
	if got {
		checkRoundTrip(col, text, st)
	}
	col.Case(evd.FP("mut", text), !want)
}

func TestC08(t *testing.T) {
	cfg := evd.Env()
	col := evd.New("C08", cfg)
	defer col.Flush()
	r := rand.New(rand.NewSource(cfg.Seed*104729 + int64(cfg.Shard)))
	st := &synStats{}
	terms := withNot(basics(coreNames, coreVals))
	var bases []*ref.Node
	// all basics over the wide vocabulary (all quoting / escape forms of names and values)
	for _, b := range basics(wideNames, wideVals) {
		bases = append(bases, b)
		q := *b
		q.QuoteNam = true
		bases = append(bases, &q)
	}
	nb := len(bases)
	for i := 0; i < cfg.N(400, 20000); i++ {
		bases = append(bases, randomAST(r, 1+r.Intn(3), terms))
	}
	for i, n := range bases {
		if !cfg.Mine(i) {
			continue
		}
		toks := n.Tokens()
		st.sentences++
		// the sentence itself, in several whitespace forms
		for _, txt := range []string{ref.Render(toks), ref.RenderSpaced(toks, " "), ref.RenderSpaced(toks, "\t\n ")} {
			_, err, hung, pan := realParse(txt)
			if hung || pan != nil {
				col.Violation("parser-hang-or-panic", fmt.Sprintf("input %q: hung=%v panic=%v", txt, hung, pan), map[string]any{"input": txt})
			} else if err != nil {
				col.Violation("rejects-sentence:generated", fmt.Sprintf("grammar sentence %q rejected: %v", txt, err), map[string]any{"input": txt})
			} else {
				checkRoundTrip(col, txt, st)
			}
		}
		col.Case(evd.FP("sentence", ref.Render(toks)), true)
		if i < nb && i%8 != 0 {
			continue // mutate only a sample of the (very similar) basics
		}
		// keywords are case sensitive: every keyword token spelled in another case
		// is just an identifier
		for p := range toks {
			if toks[p].Kind != ref.TIdent || !ref.KeywordLike(toks[p].Val) {
				continue
			}
			for _, alt := range []string{strings.ToLower(toks[p].Val), strings.ToUpper(toks[p].Val), strings.ToUpper(toks[p].Val[:1]) + strings.ToLower(toks[p].Val[1:])} {
				if alt == toks[p].Val {
					continue
				}
				v := append([]ref.Tok{}, toks...)
				v[p] = ref.Ident(alt)
				checkAcceptance(col, v, st, "keyword-case")
			}
		}
		// every single-token deletion, substitution and insertion
		for p := 0; p <= len(toks); p++ {
			if p < len(toks) {
				del := append(append([]ref.Tok{}, toks[:p]...), toks[p+1:]...)
				checkAcceptance(col, del, st, "deletion")
			}
			for _, v := range mutVocab {
				if p < len(toks) && v != toks[p] {
					sub := append([]ref.Tok{}, toks...)
					sub[p] = v
					checkAcceptance(col, sub, st, "substitution")
				}
				ins := append(append(append([]ref.Tok{}, toks[:p]...), v), toks[p:]...)
				checkAcceptance(col, ins, st, "insertion")
			}
		}
	}
	// raw byte strings: totality, and round trip if accepted
	alphabet := []string{"attributes", "hasPrefix", "AND", "OR", "NOT", ":", ".", "=", "!", "(", ")", ",", "-", "\"", "\\", " ", "a", "é", "0", "'", "`", "\n", "\x00", "/*", "*/", "//", "\"a\"", "\"\"", "1e9", "0x", "\xff"}
	for i := 0; i < cfg.N(20000, 2000000); i++ {
		if !cfg.Mine(i) {
			continue
		}
		var s string
		for k := r.Intn(14); k > 0; k-- {
			s += alphabet[r.Intn(len(alphabet))]
		}
		st.raw++
		f, err, hung, pan := realParse(s)
		if hung || pan != nil {
			col.Violation("parser-hang-or-panic", fmt.Sprintf("input %q: hung=%v panic=%v", s, hung, pan), map[string]any{"input": s})
			continue
		}
		if err == nil && f != nil {
			checkRoundTrip(col, s, st)
			_, err2, _, _ := realParse(s)
			if err2 != nil {
				col.Violation("nondeterministic-acceptance", fmt.Sprintf("input %q accepted then rejected", s), map[string]any{"input": s})
			}
		}
	}
	col.Add("relevant_events", st.mutants+st.sentences)
	col.Add("ev_sentences", st.sentences)
	col.Add("ev_token_mutants_compared", st.mutants)
	col.Add("ev_mutants_accepted_by_both", st.accepted)
	col.Add("ev_mutants_rejected", st.rejected)
	col.Add("ev_mutants_unspecified_skipped", st.skipped)
	col.Add("ev_roundtrips_checked", st.roundtrips)
	col.Add("ev_raw_strings_totality", st.raw)
	col.Sample(map[string]any{"sentence": bases[0].String(), "mutant_example": ref.Render(append([]ref.Tok{ref.P("(")}, bases[0].Tokens()...))})
}
