package rigu

import (
	"fmt"
	"math"
	"math/rand"
	"testing"
	"time"

	"go.6river.tech/mmmbbb/ent"

	"verif/harness/evd"
	"verif/harness/ref"
)

// The stored-duration codec is internal/sqltypes.Interval. It cannot be imported
// from here, but it is the type of the public field ent.Subscription.TTL, whose
// methods (Value, Scan and - through Scan(string) - ParsePostgreSQLInterval) are
// the real ones.

func scanInterval(s string) (time.Duration, error) {
	sub := &ent.Subscription{}
	err := (&sub.TTL).Scan(s)
	return time.Duration(sub.TTL), err
}

func valueInterval(d time.Duration) (string, error) {
	sub := &ent.Subscription{}
	if err := (&sub.TTL).Scan(d); err != nil {
		return "", err
	}
	v, err := sub.TTL.Value()
	if err != nil {
		return "", err
	}
	s, ok := v.(string)
	if !ok {
		return "", fmt.Errorf("Value() is %T, not string", v)
	}
	return s, nil
}

func TestC17codec(t *testing.T) {
	cfg := evd.Env()
	col := evd.New("C17", cfg)
	defer col.Flush()
	r := rand.New(rand.NewSource(cfg.Seed*17 + int64(cfg.Shard)))
	var rt, pg int64
	// 1. Scan(Value(d)) == d for every duration
	grid := []time.Duration{0, 1, 999, time.Microsecond, 1500 * time.Millisecond, 59*time.Minute + 59*time.Second + 999999999, time.Hour, 24 * time.Hour, 30 * 24 * time.Hour,
		365 * 24 * time.Hour, 100 * 365 * 24 * time.Hour, math.MaxInt64, -1, -time.Second, -(time.Hour + 2*time.Minute + 3*time.Second), math.MinInt64 + 1}
	n := cfg.N(20000, 1000000)
	for i := 0; i < len(grid)+n; i++ {
		if !cfg.Mine(i) {
			continue
		}
		var d time.Duration
		if i < len(grid) {
			d = grid[i]
		} else {
			switch r.Intn(4) {
			case 0:
				d = time.Duration(r.Int63())
			case 1:
				d = time.Duration(r.Int63n(int64(48 * time.Hour)))
			case 2:
				d = -time.Duration(r.Int63n(int64(400 * 24 * time.Hour)))
			default:
				d = time.Duration(r.Int63n(1000)) * []time.Duration{time.Nanosecond, time.Microsecond, time.Millisecond, time.Second, time.Minute, time.Hour}[r.Intn(6)]
			}
		}
		s, err := valueInterval(d)
		if err != nil {
			col.Violation("codec-value-error", fmt.Sprintf("Value() of duration %v (%d ns) failed: %v", d, int64(d), err), map[string]any{"duration_ns": int64(d)})
			continue
		}
		back, err := scanInterval(s)
		rt++
		if err != nil || back != d {
			col.Violation("codec-roundtrip", fmt.Sprintf("duration %v (%d ns) is stored as %q which is read back as %v (%v)", d, int64(d), s, back, err), map[string]any{"duration_ns": int64(d), "stored": s})
		}
		// the other representations of the same stored value: JSON (string form) and
		// the numeric / pointer source types Scan accepts
		{
			sub := &ent.Subscription{}
			_ = (&sub.TTL).Scan(d)
			js, jerr := sub.TTL.MarshalJSON()
			back := &ent.Subscription{}
			if jerr == nil {
				jerr = (&back.TTL).UnmarshalJSON(js)
			}
			if jerr != nil || time.Duration(back.TTL) != d {
				col.Violation("codec-json-roundtrip", fmt.Sprintf("duration %v (%d ns) marshals to %s which unmarshals to %v (%v)", d, int64(d), js, time.Duration(back.TTL), jerr), map[string]any{"duration_ns": int64(d)})
			}
			n64 := int64(d)
			for _, src := range []any{n64, &n64, &d} {
				x := &ent.Subscription{}
				if err := (&x.TTL).Scan(src); err != nil || time.Duration(x.TTL) != d {
					col.Violation("codec-scan-type", fmt.Sprintf("Scan(%T) of %d ns gives %v (%v)", src, n64, time.Duration(x.TTL), err), map[string]any{"duration_ns": n64})
				}
			}
			x := &ent.Subscription{}
			_ = (&x.TTL).Scan(d)
			if err := (&x.TTL).Scan(nil); err != nil || x.TTL != 0 {
				col.Violation("codec-scan-nil", fmt.Sprintf("Scan(nil) gives %v (%v)", time.Duration(x.TTL), err), nil)
			}
		}
		col.Case(evd.FP("rt", int64(d)), true)
	}
	// 2. PostgreSQL-style interval strings (what an `interval` column returns)
	type dm struct{ days, micros int64 }
	pgGrid := []dm{{0, 0}, {30, 0}, {1, 0}, {-1, 0}, {7, 0}, {365, 0}, {0, 1}, {0, -1}, {0, 3723000000}, {0, -3723000000}, {1, 3723000000}, {1, -3600000000}, {-2, 3600000000},
		{0, 86400000000}, {0, 172800000001}, {0, 999999}, {0, 1000000}, {0, 59999999}, {10000, 86399999999}, {0, -86399999999}, {0, 360000000000}}
	m := cfg.N(20000, 1000000)
	for i := 0; i < len(pgGrid)+m; i++ {
		if !cfg.Mine(i) {
			continue
		}
		var x dm
		if i < len(pgGrid) {
			x = pgGrid[i]
		} else {
			x = dm{r.Int63n(20000) - 5000, r.Int63n(400000000000) - 100000000000}
			if r.Intn(3) == 0 {
				x.days = 0
			}
			if r.Intn(4) == 0 {
				x.micros = (x.micros / 1000000) * 1000000
			}
			if r.Intn(6) == 0 {
				x.micros = 0
			}
		}
		s := ref.PGInterval(x.days, x.micros)
		want := time.Duration(x.days)*24*time.Hour + time.Duration(x.micros)*time.Microsecond
		got, err := scanInterval(s)
		pg++
		shape := "days+time"
		switch {
		case x.days != 0 && x.micros == 0:
			shape = "days-only"
		case x.days == 0 && x.micros < 0:
			shape = "negative-time"
		case x.days == 0:
			shape = "time-only"
		case x.micros < 0:
			shape = "days+negative-time"
		}
		if err != nil {
			col.Violation("pg-interval-rejected:"+shape, fmt.Sprintf("PostgreSQL interval text %q (= %v) is rejected: %v", s, want, err), map[string]any{"text": s, "days": x.days, "micros": x.micros})
		} else if got != want {
			col.Violation("pg-interval-misread:"+shape, fmt.Sprintf("PostgreSQL interval text %q is read as %v, it means %v", s, got, want), map[string]any{"text": s, "days": x.days, "micros": x.micros})
		}
		got2, err2 := scanInterval(s)
		if (err2 == nil) != (err == nil) || got2 != got {
			col.Violation("codec-nondeterministic", fmt.Sprintf("%q parsed differently twice", s), nil)
		}
		col.Case(evd.FP("pg", s), true)
	}
	// 3. strings with months / years: only "parses, deterministically"
	for i, s := range []string{"1 year", "2 mons", "1 year 2 mons 3 days 04:05:06.007008", "1 mon 00:00:01", "-1 years -2 mons +3 days -04:05:06"} {
		if !cfg.Mine(i) {
			continue
		}
		a, e1 := scanInterval(s)
		b, e2 := scanInterval(s)
		if (e1 == nil) != (e2 == nil) || a != b {
			col.Violation("codec-nondeterministic", fmt.Sprintf("%q parsed differently twice", s), nil)
		}
		if e1 != nil {
			col.Add("ev_month_year_strings_rejected", 1)
		}
	}
	col.Add("ev_duration_roundtrips", rt)
	col.Add("ev_pg_interval_strings", pg)
	col.Add("relevant_events", rt+pg)
	col.Sample(map[string]any{"duration_ns": 1500000000, "stored_as": "1.5s"})
	col.Sample(map[string]any{"pg_text": ref.PGInterval(30, 0), "means": "720h"})
}
