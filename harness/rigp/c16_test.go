package rigp

import (
	"context"
	"encoding/json"
	"fmt"
	"google.golang.org/protobuf/types/known/durationpb"
	"google.golang.org/protobuf/types/known/fieldmaskpb"
	"google.golang.org/protobuf/types/known/timestamppb"
	"math/rand"
	"net"
	"os"
	"os/exec"
	"path/filepath"
	"strings"
	"testing"
	"time"

	"google.golang.org/grpc"
	"google.golang.org/grpc/codes"
	"google.golang.org/grpc/credentials/insecure"
	"google.golang.org/grpc/status"
	"google.golang.org/protobuf/encoding/protojson"

	"go.6river.tech/mmmbbb/grpc/pubsubpb"

	"verif/harness/evd"
	"verif/harness/reqgen"
)

// server is one child process running the real cmd/mmmbbb binary.
type server struct {
	cmd    *exec.Cmd
	exited chan struct{}
	port   int
	conn   *grpc.ClientConn
	api    reqgen.ClientAPI
	dir    string
	logf   string
}

// freePortPair finds p such that p (HTTP) and p+1 (gRPC) are free. The server
// parses PORT as a 16-bit signed integer, so stay below 32768.
func freePortPair() int {
	r := rand.New(rand.NewSource(time.Now().UnixNano() + int64(os.Getpid())))
	for i := 0; i < 500; i++ {
		p := 12000 + r.Intn(19000)
		l, err := net.Listen("tcp", fmt.Sprintf("127.0.0.1:%d", p))
		if err != nil {
			continue
		}
		l2, err2 := net.Listen("tcp", fmt.Sprintf("127.0.0.1:%d", p+1))
		l.Close()
		if err2 == nil {
			l2.Close()
			return p
		}
	}
	panic("no free port pair")
}

func startServer(t *testing.T, root string, n int) *server {
	bin := os.Getenv("VERIF_MMMBBB_BIN")
	if bin == "" {
		t.Fatalf("VERIF_MMMBBB_BIN not set")
	}
	s := &server{exited: make(chan struct{}), port: freePortPair(), dir: filepath.Join(root, fmt.Sprintf("srv%d", n))}
	os.MkdirAll(s.dir, 0o755)
	s.logf = filepath.Join(s.dir, "server.log")
	lf, _ := os.Create(s.logf)
	s.cmd = exec.Command(bin)
	s.cmd.Dir = s.dir
	s.cmd.Env = append(os.Environ(),
		"DATABASE_URL=sqlite://"+filepath.Join(s.dir, "db.sqlite3")+"?_fk=true&_journal_mode=wal&cache=private&_busy_timeout=10000&_txlock=immediate",
		fmt.Sprintf("PORT=%d", s.port), "NODE_ENV=test", "LOG_LEVEL=warn")
	s.cmd.Stdout, s.cmd.Stderr = lf, lf
	if err := s.cmd.Start(); err != nil {
		t.Fatalf("start server: %v", err)
	}
	go func() { s.cmd.Wait(); lf.Close(); close(s.exited) }()
	conn, err := grpc.NewClient(fmt.Sprintf("127.0.0.1:%d", s.port+1), grpc.WithTransportCredentials(insecure.NewCredentials()),
		grpc.WithDefaultCallOptions(grpc.MaxCallRecvMsgSize(64<<20), grpc.MaxCallSendMsgSize(64<<20)))
	if err != nil {
		t.Fatalf("dial: %v", err)
	}
	s.conn = conn
	s.api = reqgen.ClientAPI{Pub: pubsubpb.NewPublisherClient(conn), Sub: pubsubpb.NewSubscriberClient(conn)}
	deadline := time.Now().Add(40 * time.Second)
	for time.Now().Before(deadline) {
		ctx, cancel := context.WithTimeout(context.Background(), time.Second)
		_, err := s.api.Pub.GetTopic(ctx, &pubsubpb.GetTopicRequest{Topic: "projects/p/topics/ready-probe"})
		cancel()
		if status.Code(err) == codes.NotFound {
			return s
		}
		select {
		case <-s.exited:
			b, _ := os.ReadFile(s.logf)
			t.Fatalf("server exited during startup: %s", b)
		default:
		}
		time.Sleep(100 * time.Millisecond)
	}
	b, _ := os.ReadFile(s.logf)
	t.Fatalf("server did not become ready: %s", b)
	return nil
}

func (s *server) alive() bool {
	select {
	case <-s.exited:
		return false
	default:
		return true
	}
}

func (s *server) stop() {
	s.conn.Close()
	if s.alive() {
		s.cmd.Process.Kill()
		<-s.exited
	}
}

func (s *server) panicLine() string {
	b, _ := os.ReadFile(s.logf)
	for _, l := range strings.Split(string(b), "\n") {
		if strings.HasPrefix(l, "panic:") || strings.Contains(l, "fatal error") {
			return l
		}
	}
	if len(b) > 300 {
		b = b[len(b)-300:]
	}
	return string(b)
}

func TestC16(t *testing.T) {
	cfg := evd.Env()
	col := evd.New("C16", cfg)
	defer col.Flush()
	root, err := os.MkdirTemp(os.Getenv("VERIF_SCRATCH"), "rigp-")
	if err != nil {
		t.Fatal(err)
	}
	defer os.RemoveAll(root)
	reqLog, _ := os.Create(filepath.Join(root, "requests.log"))
	defer reqLog.Close()
	nsrv := 0
	srv := startServer(t, root, nsrv)
	defer func() { srv.stop() }()
	ctx := context.Background()
	w, err := reqgen.Setup(ctx, srv.api)
	if err != nil {
		t.Fatalf("setup: %v", err)
	}
	r := rand.New(rand.NewSource(cfg.Seed*31 + int64(cfg.Shard)))
	reqs := reqgen.Unary(w)
	reqs = append(reqs, reqgen.Random(w, r, cfg.N(600, 30000))...)
	var answered, crashes int64
	byCode := map[string]int64{}
	restart := func() {
		srv.stop()
		nsrv++
		srv = startServer(t, root, nsrv)
		if _, err := reqgen.Setup(ctx, srv.api); err != nil {
			t.Fatalf("setup after restart: %v", err)
		}
	}
	probe := func() bool {
		c, cancel := context.WithTimeout(ctx, 5*time.Second)
		defer cancel()
		_, err := srv.api.Pub.GetTopic(c, &pubsubpb.GetTopicRequest{Topic: w.Topic})
		return err == nil
	}
	for i, rq := range reqs {
		if !cfg.Mine(i) {
			continue
		}
		js, _ := protojson.Marshal(rq.Msg)
		if len(js) > 2000 {
			js = append(js[:2000], []byte("...")...)
		}
		line, _ := json.Marshal(map[string]any{"i": i, "rpc": rq.RPC, "field": rq.Field, "class": rq.Class, "request": string(js)})
		reqLog.Write(append(line, '\n'))
		reqLog.Sync()
		c, cancel := context.WithTimeout(ctx, 15*time.Second)
		_, err := srv.api.Call(c, rq.RPC, rq.Msg)
		cancel()
		code := status.Code(err)
		// give a dying process a moment to be reaped
		if code == codes.Unavailable || code == codes.Internal || code == codes.Unknown || code == codes.DeadlineExceeded {
			select {
			case <-srv.exited:
			case <-time.After(300 * time.Millisecond):
			}
		}
		if !srv.alive() {
			crashes++
			col.Violation("crash:"+rq.Sig(), fmt.Sprintf("the server process died on %s with %s = %s: %s; request: %s", rq.RPC, rq.Field, rq.Class, srv.panicLine(), js),
				map[string]any{"rpc": rq.RPC, "field": rq.Field, "class": rq.Class, "request": string(js), "server_log_tail": srv.panicLine()})
			restart()
			col.Case(evd.FP(rq.Sig()), true)
			continue
		}
		if code == codes.DeadlineExceeded && !probe() {
			col.Violation("wedged:"+rq.Sig(), fmt.Sprintf("%s with %s = %s was not answered within 15 s and the server no longer answers a simple GetTopic", rq.RPC, rq.Field, rq.Class), map[string]any{"request": string(js)})
			restart()
			continue
		}
		if code == codes.Unavailable {
			col.Violation("unavailable:"+rq.Sig(), fmt.Sprintf("%s with %s = %s: transport-level failure %v although the process is alive", rq.RPC, rq.Field, rq.Class, err), map[string]any{"request": string(js)})
		}
		answered++
		byCode[code.String()]++
		col.Case(evd.FP(rq.Sig()), rq.Field != "")
	}
	// push subscriptions whose retry policy / endpoint sit on boundary values: the
	// pusher the supervisor starts for them runs outside any request (and outside
	// the recovery interceptors), so the process is watched for a moment afterwards
	if cfg.Mine(7) {
		dur := func(d time.Duration) *durationpb.Duration { return durationpb.New(d) }
		ep := "http://127.0.0.1:1/push"
		type pushCase struct {
			name   string
			create *pubsubpb.Subscription
			update *pubsubpb.UpdateSubscriptionRequest
		}
		mk := func(name string, rp *pubsubpb.RetryPolicy) *pubsubpb.Subscription {
			return &pubsubpb.Subscription{Name: "projects/p/subscriptions/push-" + name, Topic: w.Topic, PushConfig: &pubsubpb.PushConfig{PushEndpoint: ep}, RetryPolicy: rp}
		}
		upd := func(name string, rp *pubsubpb.RetryPolicy) *pubsubpb.UpdateSubscriptionRequest {
			return &pubsubpb.UpdateSubscriptionRequest{Subscription: &pubsubpb.Subscription{Name: "projects/p/subscriptions/push-" + name, RetryPolicy: rp}, UpdateMask: &fieldmaskpb.FieldMask{Paths: []string{"retry_policy"}}}
		}
		modifies := map[string]string{}
		cases := []pushCase{
			{"min-1ns", mk("min-1ns", &pubsubpb.RetryPolicy{MinimumBackoff: dur(1)}), nil},
			{"min-3ns", mk("min-3ns", &pubsubpb.RetryPolicy{MinimumBackoff: dur(3)}), nil},
			{"min-1us", mk("min-1us", &pubsubpb.RetryPolicy{MinimumBackoff: dur(time.Microsecond)}), nil},
			{"max-1ns", mk("max-1ns", &pubsubpb.RetryPolicy{MaximumBackoff: dur(1)}), nil},
			{"update-to-zero", mk("update-to-zero", &pubsubpb.RetryPolicy{MinimumBackoff: dur(time.Second)}), upd("update-to-zero", &pubsubpb.RetryPolicy{MinimumBackoff: dur(0), MaximumBackoff: dur(0)})},
			{"update-to-negative", mk("update-to-negative", nil), upd("update-to-negative", &pubsubpb.RetryPolicy{MinimumBackoff: dur(-time.Second)})},
			{"update-to-1ns", mk("update-to-1ns", nil), upd("update-to-1ns", &pubsubpb.RetryPolicy{MinimumBackoff: dur(1)})},
			{"huge", mk("huge", &pubsubpb.RetryPolicy{MinimumBackoff: dur(1 << 62), MaximumBackoff: dur(1 << 62)}), nil},
		}
		// endpoints the pusher cannot even build a request for
		for k, bad := range []string{" ", "\t\n", "  \u00a0 ", "%%%", "http://[::1", "http://127.0.0.1:1/\x7f", "HTTP://127.0.0.1:1", "://", "http://user:pa ss@127.0.0.1:1/", "mailto:x@y"} {
			c := mk(fmt.Sprintf("endpoint-%d", k), nil)
			c.PushConfig.PushEndpoint = bad
			cases = append(cases, pushCase{fmt.Sprintf("endpoint-%d", k), c, nil})
		}
		// the same endpoints arriving through the two RPCs that change an existing
		// subscription's push configuration
		for k, bad := range []string{" ", "\t\n", "http://[::1"} {
			nm := fmt.Sprintf("modify-%d", k)
			c := mk(nm, nil)
			c.PushConfig = nil
			cases = append(cases, pushCase{nm, c, nil})
			modifies[nm] = bad
		}
		for _, pc := range cases {
			line, _ := json.Marshal(map[string]any{"push": pc.name})
			reqLog.Write(append(line, '\n'))
			reqLog.Sync()
			c, cancel := context.WithTimeout(ctx, 15*time.Second)
			_, cerr := srv.api.Sub.CreateSubscription(c, pc.create)
			if cerr == nil {
				// something to push, so that the pusher really runs
				srv.api.Pub.Publish(c, &pubsubpb.PublishRequest{Topic: w.Topic, Messages: []*pubsubpb.PubsubMessage{{Data: []byte(`{"p":1}`)}}})
			}
			var uerr error
			if bad, ok := modifies[pc.name]; ok && cerr == nil {
				time.Sleep(200 * time.Millisecond)
				if strings.HasSuffix(pc.name, "1") {
					_, uerr = srv.api.Sub.UpdateSubscription(c, &pubsubpb.UpdateSubscriptionRequest{Subscription: &pubsubpb.Subscription{Name: pc.create.Name, PushConfig: &pubsubpb.PushConfig{PushEndpoint: bad}}, UpdateMask: &fieldmaskpb.FieldMask{Paths: []string{"push_config"}}})
				} else {
					_, uerr = srv.api.Sub.ModifyPushConfig(c, &pubsubpb.ModifyPushConfigRequest{Subscription: pc.create.Name, PushConfig: &pubsubpb.PushConfig{PushEndpoint: bad}})
				}
			}
			if pc.update != nil && cerr == nil {
				time.Sleep(300 * time.Millisecond)
				_, uerr = srv.api.Sub.UpdateSubscription(c, pc.update)
				srv.api.Pub.Publish(c, &pubsubpb.PublishRequest{Topic: w.Topic, Messages: []*pubsubpb.PubsubMessage{{Data: []byte(`{"p":2}`)}}})
			}
			cancel()
			select {
			case <-srv.exited:
			case <-time.After(1500 * time.Millisecond):
			}
			if !srv.alive() {
				crashes++
				col.Violation("crash:push-subscription/"+pc.name, fmt.Sprintf("the server process died after a push subscription was configured with %s (create: %v, update: %v): %s", pc.name, cerr, uerr, srv.panicLine()),
					map[string]any{"case": pc.name, "server_log_tail": srv.panicLine()})
				restart()
			} else if !probe() {
				col.Violation("wedged:push-subscription/"+pc.name, fmt.Sprintf("after the push subscription %s the server no longer answers", pc.name), nil)
				restart()
			} else if cerr == nil {
				// remove it again: a pusher that spins on an unreachable endpoint only costs time
				c2, cancel2 := context.WithTimeout(ctx, 5*time.Second)
				srv.api.Sub.DeleteSubscription(c2, &pubsubpb.DeleteSubscriptionRequest{Subscription: pc.create.Name})
				cancel2()
			}
			answered++
			col.Case(evd.FP("push", pc.name), true)
		}
	}
	// streaming pull: hostile first messages and mid-stream garbage
	streams := []struct {
		name string
		msgs []*pubsubpb.StreamingPullRequest
	}{
		{"bad-subscription-name", []*pubsubpb.StreamingPullRequest{{Subscription: "nope", StreamAckDeadlineSeconds: 10}}},
		{"unknown-subscription", []*pubsubpb.StreamingPullRequest{{Subscription: "projects/p/subscriptions/nosuch", StreamAckDeadlineSeconds: 10}}},
		{"negative-flow-control", []*pubsubpb.StreamingPullRequest{{Subscription: w.Sub, StreamAckDeadlineSeconds: -1, MaxOutstandingMessages: -5, MaxOutstandingBytes: -5}}},
		{"huge-flow-control", []*pubsubpb.StreamingPullRequest{{Subscription: w.Sub, StreamAckDeadlineSeconds: 10, MaxOutstandingMessages: 1 << 62, MaxOutstandingBytes: 1 << 62}}},
		{"mismatched-modify-arrays", []*pubsubpb.StreamingPullRequest{{Subscription: w.Sub, StreamAckDeadlineSeconds: 10}, {ModifyDeadlineAckIds: []string{"a", "b"}, ModifyDeadlineSeconds: []int32{1}}}},
		// the two parallel arrays in every length relation, with well-formed ids (the
		// length check has to come before anything indexes one array by the other)
		{"more-deadlines-than-ids", []*pubsubpb.StreamingPullRequest{{Subscription: w.Sub, StreamAckDeadlineSeconds: 10}, {ModifyDeadlineAckIds: w.ForeignAck[:1], ModifyDeadlineSeconds: []int32{10, 10}}}},
		{"more-deadlines-than-ids-mixed", []*pubsubpb.StreamingPullRequest{{Subscription: w.Sub, StreamAckDeadlineSeconds: 10}, {ModifyDeadlineAckIds: w.ForeignAck[:1], ModifyDeadlineSeconds: []int32{0, 30, 5}}}},
		{"deadlines-without-ids", []*pubsubpb.StreamingPullRequest{{Subscription: w.Sub, StreamAckDeadlineSeconds: 10}, {ModifyDeadlineSeconds: []int32{10}}}},
		{"ids-without-deadlines", []*pubsubpb.StreamingPullRequest{{Subscription: w.Sub, StreamAckDeadlineSeconds: 10}, {ModifyDeadlineAckIds: w.ForeignAck[:1]}}},
		{"fewer-deadlines-than-ids", []*pubsubpb.StreamingPullRequest{{Subscription: w.Sub, StreamAckDeadlineSeconds: 10}, {ModifyDeadlineAckIds: append(append([]string{}, w.ForeignAck[:1]...), w.StaleAck...), ModifyDeadlineSeconds: []int32{10}}}},
		{"more-deadlines-than-ids-in-first-message", []*pubsubpb.StreamingPullRequest{{Subscription: w.Sub, StreamAckDeadlineSeconds: 10, ModifyDeadlineAckIds: w.ForeignAck[:1], ModifyDeadlineSeconds: []int32{10, 0}}}},
		{"per-id-deadlines", []*pubsubpb.StreamingPullRequest{{Subscription: w.Sub, StreamAckDeadlineSeconds: 10}, {ModifyDeadlineAckIds: append(append([]string{}, w.ForeignAck...), w.StaleAck...), ModifyDeadlineSeconds: mixedDeadlines(len(w.ForeignAck) + len(w.StaleAck))}}},
		// a late or duplicate give-back: every id in the request is settled already, or never existed
		{"zero-deadline-for-settled-ids-only", []*pubsubpb.StreamingPullRequest{{Subscription: w.Sub, StreamAckDeadlineSeconds: 10}, {ModifyDeadlineAckIds: w.StaleAck, ModifyDeadlineSeconds: make([]int32, len(w.StaleAck))}}},
		{"zero-deadline-for-unknown-ids-only", []*pubsubpb.StreamingPullRequest{{Subscription: w.Sub, StreamAckDeadlineSeconds: 10}, {ModifyDeadlineAckIds: []string{"6f1e0c3a-9d0b-4f5e-8a21-0123456789ab", "6f1e0c3a-9d0b-4f5e-8a21-0123456789ac"}, ModifyDeadlineSeconds: []int32{0, 0}}}},
		{"ack-of-unknown-ids-only", []*pubsubpb.StreamingPullRequest{{Subscription: w.Sub, StreamAckDeadlineSeconds: 10}, {AckIds: []string{"6f1e0c3a-9d0b-4f5e-8a21-0123456789ab"}}}},
		// a client library re-sends ids it is not sure about: the same id several times in one request
		{"repeated-unknown-ack-ids", []*pubsubpb.StreamingPullRequest{{Subscription: w.Sub, StreamAckDeadlineSeconds: 10}, {AckIds: []string{"6f1e0c3a-9d0b-4f5e-8a21-0123456789ab", "6f1e0c3a-9d0b-4f5e-8a21-0123456789ac", "6f1e0c3a-9d0b-4f5e-8a21-0123456789ab", "6f1e0c3a-9d0b-4f5e-8a21-0123456789ac"}}}},
		{"same-ack-id-three-times", []*pubsubpb.StreamingPullRequest{{Subscription: w.Sub, StreamAckDeadlineSeconds: 10}, {AckIds: []string{"6f1e0c3a-9d0b-4f5e-8a21-0123456789ab", "6f1e0c3a-9d0b-4f5e-8a21-0123456789ab", "6f1e0c3a-9d0b-4f5e-8a21-0123456789ab"}}}},
		{"repeated-settled-ack-ids", []*pubsubpb.StreamingPullRequest{{Subscription: w.Sub, StreamAckDeadlineSeconds: 10}, {AckIds: append(append(append([]string{}, w.StaleAck...), w.StaleAck...), w.StaleAck...)}}},
		{"repeated-foreign-ack-ids", []*pubsubpb.StreamingPullRequest{{Subscription: w.Sub, StreamAckDeadlineSeconds: 10}, {AckIds: append(append(append([]string{}, w.ForeignAck...), w.ForeignAck...), "6f1e0c3a-9d0b-4f5e-8a21-0123456789ff")}}},
		{"repeated-modify-ids", []*pubsubpb.StreamingPullRequest{{Subscription: w.Sub, StreamAckDeadlineSeconds: 10}, {ModifyDeadlineAckIds: []string{"6f1e0c3a-9d0b-4f5e-8a21-0123456789ab", "6f1e0c3a-9d0b-4f5e-8a21-0123456789ac", "6f1e0c3a-9d0b-4f5e-8a21-0123456789ab", "6f1e0c3a-9d0b-4f5e-8a21-0123456789ac"}, ModifyDeadlineSeconds: []int32{0, 10, 0, 10}}}},
		{"same-id-acked-and-modified", []*pubsubpb.StreamingPullRequest{{Subscription: w.Sub, StreamAckDeadlineSeconds: 10}, {AckIds: []string{"6f1e0c3a-9d0b-4f5e-8a21-0123456789ab", "6f1e0c3a-9d0b-4f5e-8a21-0123456789ab"}, ModifyDeadlineAckIds: []string{"6f1e0c3a-9d0b-4f5e-8a21-0123456789ab", "6f1e0c3a-9d0b-4f5e-8a21-0123456789ab", "6f1e0c3a-9d0b-4f5e-8a21-0123456789ab"}, ModifyDeadlineSeconds: []int32{0, 0, 0}}}},
		{"garbage-ack-ids", []*pubsubpb.StreamingPullRequest{{Subscription: w.Sub, StreamAckDeadlineSeconds: 10}, {AckIds: []string{"zzz", ""}}}},
		{"garbage-modify-ids", []*pubsubpb.StreamingPullRequest{{Subscription: w.Sub, StreamAckDeadlineSeconds: 10}, {ModifyDeadlineAckIds: []string{"zzz"}, ModifyDeadlineSeconds: []int32{0}}}},
		{"negative-deadline", []*pubsubpb.StreamingPullRequest{{Subscription: w.Sub, StreamAckDeadlineSeconds: 10}, {ModifyDeadlineAckIds: w.ForeignAck, ModifyDeadlineSeconds: negs(len(w.ForeignAck))}}},
		{"acks-in-first-message", []*pubsubpb.StreamingPullRequest{{Subscription: w.Sub, StreamAckDeadlineSeconds: 10, AckIds: w.StaleAck}}},
		{"resend-initial", []*pubsubpb.StreamingPullRequest{{Subscription: w.Sub, StreamAckDeadlineSeconds: 10}, {Subscription: w.OrdSub, StreamAckDeadlineSeconds: 10, MaxOutstandingMessages: 1}}},
		{"half-close", []*pubsubpb.StreamingPullRequest{{Subscription: w.Sub, StreamAckDeadlineSeconds: 10}}},
		{"empty-first-message", []*pubsubpb.StreamingPullRequest{{}}},
	}
	for i, sc := range streams {
		if !cfg.Mine(i) {
			continue
		}
		line, _ := json.Marshal(map[string]any{"stream": sc.name})
		reqLog.Write(append(line, '\n'))
		reqLog.Sync()
		c, cancel := context.WithTimeout(ctx, 3*time.Second)
		st, err := srv.api.Sub.StreamingPull(c)
		if err == nil {
			for _, m := range sc.msgs {
				if st.Send(m) != nil {
					break
				}
				time.Sleep(150 * time.Millisecond)
			}
			st.CloseSend()
			for k := 0; k < 50; k++ {
				if _, err = st.Recv(); err != nil {
					break
				}
			}
		}
		cancel()
		select {
		case <-srv.exited:
		case <-time.After(300 * time.Millisecond):
		}
		if !srv.alive() {
			crashes++
			col.Violation("crash:StreamingPull/"+sc.name, fmt.Sprintf("the server process died on StreamingPull script %s: %s", sc.name, srv.panicLine()), map[string]any{"script": sc.name})
			restart()
		} else if !probe() {
			col.Violation("wedged:StreamingPull/"+sc.name, fmt.Sprintf("after StreamingPull script %s the server no longer answers", sc.name), map[string]any{"script": sc.name})
			restart()
		} else {
			answered++
			byCode["stream:"+status.Code(err).String()]++
		}
		col.Case(evd.FP("stream", sc.name), true)
	}
	// sequences of individually valid requests that leave the server in a state
	// its background goroutines (stream fetchers, the dead-letter sweep) have to
	// cope with: those run outside the per-request recovery
	{
		dur := func(d time.Duration) *durationpb.Duration { return durationpb.New(d) }
		fast := &pubsubpb.RetryPolicy{MinimumBackoff: dur(time.Millisecond), MaximumBackoff: dur(time.Millisecond)}
		pub := func(c context.Context, topic string, n int) {
			req := &pubsubpb.PublishRequest{Topic: topic}
			for k := 0; k < n; k++ {
				req.Messages = append(req.Messages, &pubsubpb.PubsubMessage{Data: []byte(fmt.Sprintf(`{"q":%d}`, k))})
			}
			srv.api.Pub.Publish(c, req)
		}
		// exhaust: pull and give back (deadline 0) until nothing comes any more
		exhaust := func(c context.Context, sub string, rounds int) {
			for k := 0; k < rounds; k++ {
				r, err := srv.api.Sub.Pull(c, &pubsubpb.PullRequest{Subscription: sub, MaxMessages: 10, ReturnImmediately: true})
				if err != nil {
					return
				}
				var ids []string
				for _, m := range r.ReceivedMessages {
					ids = append(ids, m.AckId)
				}
				if len(ids) > 0 {
					srv.api.Sub.ModifyAckDeadline(c, &pubsubpb.ModifyAckDeadlineRequest{Subscription: sub, AckIds: ids, AckDeadlineSeconds: 0})
				}
				time.Sleep(20 * time.Millisecond)
			}
		}
		// stream: hold a StreamingPull open for a moment, optionally doing something meanwhile
		stream := func(c context.Context, sub string, meanwhile func()) {
			sc, cancel := context.WithTimeout(c, 2*time.Second)
			defer cancel()
			st, err := srv.api.Sub.StreamingPull(sc)
			if err != nil {
				return
			}
			st.Send(&pubsubpb.StreamingPullRequest{Subscription: sub, StreamAckDeadlineSeconds: 10, MaxOutstandingMessages: 2})
			done := make(chan struct{})
			go func() {
				defer close(done)
				for {
					if _, err := st.Recv(); err != nil {
						return
					}
				}
			}()
			time.Sleep(200 * time.Millisecond)
			if meanwhile != nil {
				meanwhile()
			}
			select {
			case <-done:
			case <-time.After(700 * time.Millisecond):
			}
			st.CloseSend()
		}
		type seqCase struct {
			name string
			run  func(c context.Context, t, d, sub string)
		}
		mkSub := func(c context.Context, s *pubsubpb.Subscription) {
			srv.api.Sub.CreateSubscription(c, s)
		}
		seqs := []seqCase{
			{"dead-letter-topic-deleted-then-attempts-exhausted", func(c context.Context, t, d, sub string) {
				mkSub(c, &pubsubpb.Subscription{Name: sub, Topic: t, RetryPolicy: fast, DeadLetterPolicy: &pubsubpb.DeadLetterPolicy{DeadLetterTopic: d, MaxDeliveryAttempts: 5}})
				pub(c, t, 2)
				srv.api.Pub.DeleteTopic(c, &pubsubpb.DeleteTopicRequest{Topic: d})
				exhaust(c, sub, 8)
				stream(c, sub, nil)
				exhaust(c, sub, 2)
			}},
			{"attempts-exhausted-then-dead-letter-topic-deleted", func(c context.Context, t, d, sub string) {
				mkSub(c, &pubsubpb.Subscription{Name: sub, Topic: t, RetryPolicy: fast, DeadLetterPolicy: &pubsubpb.DeadLetterPolicy{DeadLetterTopic: d, MaxDeliveryAttempts: 5}})
				pub(c, t, 2)
				exhaust(c, sub, 5)
				srv.api.Pub.DeleteTopic(c, &pubsubpb.DeleteTopicRequest{Topic: d})
				stream(c, sub, func() { exhaust(c, sub, 3) })
			}},
			{"dead-letter-onto-filtered-subscriptions-with-odd-attribute-values", func(c context.Context, t, d, sub string) {
				// the forward evaluates the filters of the dead-letter topic's
				// subscriptions - in the stream's fetcher and in the sweep, outside any
				// per-request recovery - on messages the source accepted without a filter
				for k, f := range []string{`hasPrefix(attributes.k, "a")`, `attributes.k = "a"`, `attributes:k`, `NOT hasPrefix(attributes.k, "")`, `attributes.k != ""`, `hasPrefix(attributes."", "a") OR -attributes:""`} {
					mkSub(c, &pubsubpb.Subscription{Name: fmt.Sprintf("%s-dl%d", sub, k), Topic: d, Filter: f})
				}
				mkSub(c, &pubsubpb.Subscription{Name: sub, Topic: t, RetryPolicy: fast, DeadLetterPolicy: &pubsubpb.DeadLetterPolicy{DeadLetterTopic: d, MaxDeliveryAttempts: 5}})
				req := &pubsubpb.PublishRequest{Topic: t}
				for k, a := range []map[string]string{{"k": ""}, {"k": "a"}, nil, {"": ""}, {"": "a", "k": "\x00"}, {"K": "a"}} {
					req.Messages = append(req.Messages, &pubsubpb.PubsubMessage{Data: []byte(fmt.Sprintf(`{"q":%d}`, k)), Attributes: a})
				}
				srv.api.Pub.Publish(c, req)
				exhaust(c, sub, 5)
				stream(c, sub, nil)
				exhaust(c, sub, 3)
				stream(c, sub+"-dl0", nil)
			}},
			{"dead-letter-to-own-topic", func(c context.Context, t, d, sub string) {
				mkSub(c, &pubsubpb.Subscription{Name: sub, Topic: t, RetryPolicy: fast, DeadLetterPolicy: &pubsubpb.DeadLetterPolicy{DeadLetterTopic: t, MaxDeliveryAttempts: 5}})
				pub(c, t, 2)
				exhaust(c, sub, 12)
				stream(c, sub, nil)
			}},
			{"dead-letter-topic-without-subscriptions", func(c context.Context, t, d, sub string) {
				mkSub(c, &pubsubpb.Subscription{Name: sub, Topic: t, RetryPolicy: fast, DeadLetterPolicy: &pubsubpb.DeadLetterPolicy{DeadLetterTopic: d, MaxDeliveryAttempts: 5}})
				pub(c, t, 2)
				exhaust(c, sub, 8)
				stream(c, sub, nil)
			}},
			{"topic-deleted-under-open-stream", func(c context.Context, t, d, sub string) {
				mkSub(c, &pubsubpb.Subscription{Name: sub, Topic: t, RetryPolicy: fast})
				pub(c, t, 3)
				stream(c, sub, func() {
					srv.api.Pub.DeleteTopic(c, &pubsubpb.DeleteTopicRequest{Topic: t})
					pub(c, t, 1)
				})
				exhaust(c, sub, 2)
			}},
			{"subscription-deleted-under-open-stream", func(c context.Context, t, d, sub string) {
				mkSub(c, &pubsubpb.Subscription{Name: sub, Topic: t, RetryPolicy: fast})
				pub(c, t, 3)
				stream(c, sub, func() {
					srv.api.Sub.DeleteSubscription(c, &pubsubpb.DeleteSubscriptionRequest{Subscription: sub})
					pub(c, t, 1)
				})
			}},
			{"subscription-recreated-under-open-stream", func(c context.Context, t, d, sub string) {
				mkSub(c, &pubsubpb.Subscription{Name: sub, Topic: t, RetryPolicy: fast})
				pub(c, t, 3)
				stream(c, sub, func() {
					srv.api.Sub.DeleteSubscription(c, &pubsubpb.DeleteSubscriptionRequest{Subscription: sub})
					mkSub(c, &pubsubpb.Subscription{Name: sub, Topic: t, EnableMessageOrdering: true})
					pub(c, t, 2)
				})
			}},
			{"seeks-under-open-stream", func(c context.Context, t, d, sub string) {
				mkSub(c, &pubsubpb.Subscription{Name: sub, Topic: t, RetryPolicy: fast, RetainAckedMessages: true})
				pub(c, t, 3)
				stream(c, sub, func() {
					srv.api.Sub.Seek(c, &pubsubpb.SeekRequest{Subscription: sub, Target: &pubsubpb.SeekRequest_Time{Time: timestamppb.New(time.Now().Add(time.Hour))}})
					srv.api.Sub.Seek(c, &pubsubpb.SeekRequest{Subscription: sub, Target: &pubsubpb.SeekRequest_Time{Time: timestamppb.New(time.Unix(0, 0))}})
					pub(c, t, 1)
				})
			}},
			{"updates-under-open-stream", func(c context.Context, t, d, sub string) {
				mkSub(c, &pubsubpb.Subscription{Name: sub, Topic: t, RetryPolicy: fast})
				pub(c, t, 3)
				stream(c, sub, func() {
					srv.api.Sub.UpdateSubscription(c, &pubsubpb.UpdateSubscriptionRequest{Subscription: &pubsubpb.Subscription{Name: sub, Filter: `attributes:nope`, EnableMessageOrdering: true, DeadLetterPolicy: &pubsubpb.DeadLetterPolicy{DeadLetterTopic: d, MaxDeliveryAttempts: 5}},
						UpdateMask: &fieldmaskpb.FieldMask{Paths: []string{"filter", "enable_message_ordering", "dead_letter_policy"}}})
					pub(c, t, 2)
					srv.api.Sub.ModifyPushConfig(c, &pubsubpb.ModifyPushConfigRequest{Subscription: sub, PushConfig: &pubsubpb.PushConfig{PushEndpoint: "http://127.0.0.1:1/x"}})
				})
				srv.api.Sub.ModifyPushConfig(c, &pubsubpb.ModifyPushConfigRequest{Subscription: sub, PushConfig: &pubsubpb.PushConfig{}})
			}},
			{"snapshot-of-deleted-subscription-and-topic", func(c context.Context, t, d, sub string) {
				mkSub(c, &pubsubpb.Subscription{Name: sub, Topic: t, RetryPolicy: fast})
				pub(c, t, 2)
				snap := strings.Replace(sub, "/subscriptions/", "/snapshots/", 1)
				srv.api.Sub.CreateSnapshot(c, &pubsubpb.CreateSnapshotRequest{Name: snap, Subscription: sub})
				srv.api.Sub.DeleteSubscription(c, &pubsubpb.DeleteSubscriptionRequest{Subscription: sub})
				srv.api.Pub.DeleteTopic(c, &pubsubpb.DeleteTopicRequest{Topic: t})
				mkSub(c, &pubsubpb.Subscription{Name: sub, Topic: d})
				srv.api.Sub.Seek(c, &pubsubpb.SeekRequest{Subscription: sub, Target: &pubsubpb.SeekRequest_Snapshot{Snapshot: snap}})
				stream(c, sub, nil)
				srv.api.Sub.DeleteSnapshot(c, &pubsubpb.DeleteSnapshotRequest{Snapshot: snap})
			}},
		}
		for k, sq := range seqs {
			if !cfg.Mine(k + 3) {
				continue
			}
			line, _ := json.Marshal(map[string]any{"sequence": sq.name})
			reqLog.Write(append(line, '\n'))
			reqLog.Sync()
			c, cancel := context.WithTimeout(ctx, 30*time.Second)
			tn, dn, sn := fmt.Sprintf("projects/p/topics/seq%d", k), fmt.Sprintf("projects/p/topics/seq%d-dl", k), fmt.Sprintf("projects/p/subscriptions/seq%d", k)
			srv.api.Pub.CreateTopic(c, &pubsubpb.Topic{Name: tn})
			srv.api.Pub.CreateTopic(c, &pubsubpb.Topic{Name: dn})
			sq.run(c, tn, dn, sn)
			cancel()
			select {
			case <-srv.exited:
			case <-time.After(500 * time.Millisecond):
			}
			if !srv.alive() {
				crashes++
				col.Violation("crash:sequence/"+sq.name, fmt.Sprintf("the server process died during the request sequence %s (every request in it is valid): %s", sq.name, srv.panicLine()), map[string]any{"sequence": sq.name, "server_log_tail": srv.panicLine()})
				restart()
			} else if !probe() {
				col.Violation("wedged:sequence/"+sq.name, fmt.Sprintf("after the request sequence %s the server no longer answers", sq.name), map[string]any{"sequence": sq.name})
				restart()
			} else {
				answered++
				// leave nothing behind that later families would stumble over
				c2, cancel2 := context.WithTimeout(ctx, 5*time.Second)
				srv.api.Sub.DeleteSubscription(c2, &pubsubpb.DeleteSubscriptionRequest{Subscription: sn})
				srv.api.Pub.DeleteTopic(c2, &pubsubpb.DeleteTopicRequest{Topic: tn})
				srv.api.Pub.DeleteTopic(c2, &pubsubpb.DeleteTopicRequest{Topic: dn})
				cancel2()
			}
			col.Case(evd.FP("sequence", sq.name), true)
		}
	}
	// streaming pull with real traffic and flow-control values at the boundaries
	// of the payload sizes (exactly filled, one below, one above, tiny, huge):
	// the stream's own goroutines must survive them too
	payload := []byte(`{"k":"0123456789"}`) // 18 bytes
	fcIdx := 0
	for _, maxBytes := range []int64{1, 17, 18, 19, 35, 36, 37, 54, 0, -1, 1 << 40} {
		for _, maxMsgs := range []int64{1, 2, 3, 0} {
			fcIdx++
			if !cfg.Mine(fcIdx) {
				continue
			}
			name := fmt.Sprintf("StreamingPull/flow-control/bytes=%d/msgs=%d", maxBytes, maxMsgs)
			line, _ := json.Marshal(map[string]any{"stream": name})
			reqLog.Write(append(line, '\n'))
			reqLog.Sync()
			sub := fmt.Sprintf("projects/p/subscriptions/fc%d", fcIdx)
			c, cancel := context.WithTimeout(ctx, 10*time.Second)
			_, e1 := srv.api.Sub.CreateSubscription(c, &pubsubpb.Subscription{Name: sub, Topic: w.Topic})
			_, e2 := srv.api.Pub.Publish(c, &pubsubpb.PublishRequest{Topic: w.Topic, Messages: []*pubsubpb.PubsubMessage{{Data: payload}, {Data: payload}, {Data: payload}}})
			var got []string
			st, err := srv.api.Sub.StreamingPull(c)
			if err == nil && e1 == nil && e2 == nil {
				st.Send(&pubsubpb.StreamingPullRequest{Subscription: sub, StreamAckDeadlineSeconds: 10, MaxOutstandingBytes: maxBytes, MaxOutstandingMessages: maxMsgs})
				recvDone := make(chan struct{})
				go func() {
					defer close(recvDone)
					for {
						r, err := st.Recv()
						if err != nil {
							return
						}
						for _, m := range r.ReceivedMessages {
							got = append(got, m.AckId)
						}
						if len(got) >= 3 {
							return
						}
						// leave them outstanding for a moment, then ack one at a time
						time.Sleep(150 * time.Millisecond)
						if len(got) > 0 {
							st.Send(&pubsubpb.StreamingPullRequest{AckIds: got[len(got)-1:]})
						}
					}
				}()
				select {
				case <-recvDone:
				case <-time.After(2 * time.Second):
				}
				st.CloseSend()
			}
			cancel()
			select {
			case <-srv.exited:
			case <-time.After(300 * time.Millisecond):
			}
			if !srv.alive() {
				crashes++
				col.Violation("crash:"+name, fmt.Sprintf("the server process died during a StreamingPull with max_outstanding_bytes=%d max_outstanding_messages=%d over three 18-byte messages: %s", maxBytes, maxMsgs, srv.panicLine()), map[string]any{"script": name})
				restart()
			} else if !probe() {
				col.Violation("wedged:"+name, fmt.Sprintf("after a StreamingPull with max_outstanding_bytes=%d max_outstanding_messages=%d the server no longer answers", maxBytes, maxMsgs), map[string]any{"script": name})
				restart()
			} else {
				answered++
			}
			col.Case(evd.FP("stream-fc", maxBytes, maxMsgs), true)
		}
	}
	col.Add("relevant_events", answered+crashes)
	col.Add("ev_requests_answered_with_a_status", answered)
	col.Add("ev_server_crashes", crashes)
	for k, v := range byCode {
		col.Add("ev_status_"+k, v)
	}
	if cfg.Shard == 0 {
		col.Sample(map[string]any{"rpc": reqs[0].RPC, "field": reqs[0].Field, "class": reqs[0].Class})
		col.Sample(map[string]any{"rpc": reqs[len(reqs)/2].RPC, "field": reqs[len(reqs)/2].Field, "class": reqs[len(reqs)/2].Class})
	}
}

func mixedDeadlines(n int) []int32 {
	out := make([]int32, n)
	for i := range out {
		out[i] = []int32{0, 30, 5, 600}[i%4]
	}
	return out
}

func negs(n int) []int32 {
	out := make([]int32, n)
	for i := range out {
		out[i] = -1
	}
	return out
}
