package rigp

import (
	"bytes"
	"context"
	"encoding/json"
	"fmt"
	"io"
	"math/rand"
	"net/http"
	"os"
	"strings"
	"sync"
	"testing"
	"time"

	"google.golang.org/grpc/codes"
	"google.golang.org/grpc/status"

	"go.6river.tech/mmmbbb/grpc/pubsubpb"

	"verif/harness/evd"
)

// TestC18http: the same exact-count property end to end on the real binary: a
// fault injected through POST /faults/inject fails exactly min(N, matching
// calls) of the concurrent gRPC calls, never a non-matching one, and GET /faults
// shows what is left.
func TestC18http(t *testing.T) {
	cfg := evd.Env()
	col := evd.New("C18", cfg)
	defer col.Flush()
	root, err := os.MkdirTemp(os.Getenv("VERIF_SCRATCH"), "rigp18-")
	if err != nil {
		t.Fatal(err)
	}
	defer os.RemoveAll(root)
	srv := startServer(t, root, 0)
	defer srv.stop()
	ctx := context.Background()
	r := rand.New(rand.NewSource(cfg.Seed*71 + int64(cfg.Shard)))
	base := fmt.Sprintf("http://127.0.0.1:%d", srv.port)
	must2 := func(_ any, err error) {
		if err != nil {
			t.Fatalf("setup: %v", err)
		}
	}
	must2(srv.api.Pub.CreateTopic(ctx, &pubsubpb.Topic{Name: "projects/p/topics/t"}))
	for _, s := range []string{"a", "b"} {
		must2(srv.api.Sub.CreateSubscription(ctx, &pubsubpb.Subscription{Name: "projects/p/subscriptions/" + s, Topic: "projects/p/topics/t"}))
	}
	listed := func() (map[string]int64, error) {
		resp, err := http.Get(base + "/faults")
		if err != nil {
			return nil, err
		}
		defer resp.Body.Close()
		var l []struct {
			Operation  string             `json:"operation"`
			Count      int64              `json:"count"`
			Parameters *map[string]string `json:"parameters"`
		}
		b, _ := io.ReadAll(resp.Body)
		if err := json.Unmarshal(b, &l); err != nil {
			return nil, fmt.Errorf("%v: %s", err, b)
		}
		out := map[string]int64{}
		for _, d := range l {
			out[d.Operation] += d.Count
		}
		return out, nil
	}
	trials := cfg.N(40, 3000)
	var contended int64
	for tr := 0; tr < trials; tr++ {
		if !cfg.Mine(tr) {
			continue
		}
		n := []int64{1, 2, 7, 20}[r.Intn(4)]
		callers := []int{1, 2, 8, 32}[r.Intn(4)]
		body, _ := json.Marshal(map[string]any{"operation": "GetSubscription", "parameters": map[string]string{"subscription": "projects/p/subscriptions/a"}, "count": n, "error": "grpc.Unavailable"})
		resp, err := http.Post(base+"/faults/inject", "application/json", bytes.NewReader(body))
		if err != nil || resp.StatusCode != http.StatusCreated {
			t.Fatalf("inject: %v %v", err, resp)
		}
		resp.Body.Close()
		matching := 0
		kinds := make([]bool, callers)
		for i := range kinds {
			kinds[i] = r.Intn(4) != 0
			if kinds[i] {
				matching++
			}
		}
		res := make([]codes.Code, callers)
		var start, done sync.WaitGroup
		start.Add(1)
		for i := 0; i < callers; i++ {
			done.Add(1)
			go func(i int) {
				defer done.Done()
				sub := "projects/p/subscriptions/a"
				if !kinds[i] {
					sub = "projects/p/subscriptions/b"
				}
				start.Wait()
				c, cancel := context.WithTimeout(ctx, 20*time.Second)
				defer cancel()
				_, err := srv.api.Sub.GetSubscription(c, &pubsubpb.GetSubscriptionRequest{Subscription: sub})
				res[i] = status.Code(err)
			}(i)
		}
		start.Done()
		done.Wait()
		failed := 0
		for i, c := range res {
			switch {
			case c == codes.Unavailable && kinds[i]:
				failed++
			case c == codes.Unavailable:
				col.Violation("http:non-matching-call-failed", "a GetSubscription of another subscription got the injected Unavailable", map[string]any{"count": n, "callers": callers})
			case c != codes.OK:
				col.Violation("http:unexpected-status", fmt.Sprintf("GetSubscription answered %v", c), nil)
			}
		}
		want := int(n)
		if matching < want {
			want = matching
		}
		if failed != want {
			col.Violation("http:wrong-count", fmt.Sprintf("fault with count %d, %d concurrent callers of which %d match: %d calls failed, exactly %d expected", n, callers, matching, failed, want), map[string]any{"count": n, "callers": callers, "matching": matching, "failed": failed})
		}
		// listing (after the asynchronous prune): what is left of this fault
		left := n - int64(failed)
		ok := false
		var got map[string]int64
		for k := 0; k < 100 && !ok; k++ {
			got, err = listed()
			if err == nil && got["GetSubscription"] == left {
				ok = true
			} else {
				time.Sleep(10 * time.Millisecond)
			}
		}
		if !ok {
			col.Violation("http:listing-wrong", fmt.Sprintf("GET /faults shows %v for GetSubscription, expected remaining %d (err %v)", got, left, err), nil)
		}
		// consume what is left so that the next trial starts clean
		for i := int64(0); i < left; i++ {
			srv.api.Sub.GetSubscription(ctx, &pubsubpb.GetSubscriptionRequest{Subscription: "projects/p/subscriptions/a"})
		}
		if matching > int(n) && callers > 1 && n > 0 {
			contended++
		}
		if !srv.alive() {
			t.Fatalf("server died: %s", srv.panicLine())
		}
		col.Case(evd.FP("http", n, callers, matching), callers > 1)
	}
	// stacked injections: two or three descriptors for the same operation and
	// parameters, with finite counts or none (unlimited), injected before and
	// between the calls that use them up. Every acknowledged injection counts:
	// of M sequential matching calls exactly min(M, sum of the counts) fail - all
	// of them once an unlimited one was acknowledged - and the listing shows the
	// unlimited one for as long as the process lives.
	var stacked, unlimitedNextToLimited int64
	for tr := 0; tr < cfg.N(24, 600); tr++ {
		if !cfg.Mine(tr) {
			continue
		}
		topic := fmt.Sprintf("projects/p/topics/stack-%d-%d", cfg.Shard, tr)
		must2(srv.api.Pub.CreateTopic(ctx, &pubsubpb.Topic{Name: topic}))
		inject := func(count int64) {
			m := map[string]any{"operation": "GetTopic", "parameters": map[string]string{"topic": topic}, "error": "grpc.Unavailable"}
			if count > 0 {
				m["count"] = count
			}
			body, _ := json.Marshal(m)
			resp, err := http.Post(base+"/faults/inject", "application/json", bytes.NewReader(body))
			if err != nil || resp.StatusCode != http.StatusCreated {
				t.Fatalf("inject: %v %v", err, resp)
			}
			resp.Body.Close()
		}
		call := func() codes.Code {
			_, err := srv.api.Pub.GetTopic(ctx, &pubsubpb.GetTopicRequest{Topic: topic})
			return status.Code(err)
		}
		nInj := 2 + r.Intn(2)
		var counts []int64
		var budget int64
		unlimited, sawLimitedFirst := false, false
		failed, calls := 0, 0
		var wrong []string
		for i := 0; i < nInj; i++ {
			c := []int64{0, 1, 2, 5}[r.Intn(4)]
			if c == 0 && !unlimited && budget > 0 {
				sawLimitedFirst = true
			}
			inject(c)
			counts = append(counts, c)
			if c == 0 {
				unlimited = true
			}
			budget += c
			// some calls between the injections
			for k := r.Intn(4); k > 0; k-- {
				calls++
				got := call()
				wantFail := unlimited || budget > 0
				if !unlimited && budget > 0 {
					budget--
				}
				if (got == codes.Unavailable) != wantFail || (got != codes.Unavailable && got != codes.OK) {
					wrong = append(wrong, fmt.Sprintf("call %d after injections %v answered %v", calls, counts, got))
				}
				if got == codes.Unavailable {
					failed++
				}
			}
		}
		for k := int(budget) + 3; k > 0; k-- {
			calls++
			got := call()
			wantFail := unlimited || budget > 0
			if !unlimited && budget > 0 {
				budget--
			}
			if (got == codes.Unavailable) != wantFail || (got != codes.Unavailable && got != codes.OK) {
				wrong = append(wrong, fmt.Sprintf("call %d after injections %v answered %v", calls, counts, got))
			}
		}
		if len(wrong) > 0 {
			col.Violation("http:stacked-injections-wrong-count", fmt.Sprintf("injections with counts %v (0 = none given, unlimited) for GetTopic(%s): %s", counts, topic, strings.Join(wrong, "; ")), map[string]any{"counts": counts})
		}
		if unlimited {
			// the unlimited descriptor must still be listed
			resp, err := http.Get(base + "/faults")
			found := false
			if err == nil {
				var l []struct {
					Operation  string             `json:"operation"`
					Count      int64              `json:"count"`
					Parameters *map[string]string `json:"parameters"`
				}
				b, _ := io.ReadAll(resp.Body)
				resp.Body.Close()
				_ = json.Unmarshal(b, &l)
				for _, d := range l {
					if d.Operation == "GetTopic" && d.Parameters != nil && (*d.Parameters)["topic"] == topic && d.Count > 1<<61 {
						found = true
					}
				}
			}
			if !found {
				col.Violation("http:unlimited-injection-not-listed", fmt.Sprintf("injections with counts %v for GetTopic(%s): after %d calls GET /faults does not list the unlimited one (err %v)", counts, topic, calls, err), nil)
			}
		}
		stacked++
		if sawLimitedFirst {
			unlimitedNextToLimited++
		}
		if !srv.alive() {
			t.Fatalf("server died: %s", srv.panicLine())
		}
		col.Case(evd.FP("http-stacked", counts, calls), true)
	}
	col.Add("ev_http_stacked_injection_trials", stacked)
	col.Add("ev_http_unlimited_injected_while_a_limited_twin_was_live", unlimitedNextToLimited)
	col.Add("relevant_events", stacked)
	col.Add("ev_http_trials_with_more_matching_callers_than_count", contended)
	col.Add("relevant_events", contended)
}
