module verif/harness

go 1.26

require (
	entgo.io/ent v0.14.4
	github.com/gin-gonic/gin v1.10.0
	github.com/google/uuid v1.6.0
	github.com/jackc/pgx/v5 v5.7.4
	github.com/mattn/go-sqlite3 v1.14.24
	github.com/prometheus/client_golang v1.21.1
	github.com/rs/zerolog v1.34.0
	go.6river.tech/mmmbbb v0.0.0
	google.golang.org/grpc v1.71.0
	google.golang.org/protobuf v1.36.6
)

require (
	ariga.io/atlas v0.32.0 // indirect
	cloud.google.com/go v0.119.0 // indirect
	cloud.google.com/go/auth v0.15.0 // indirect
	cloud.google.com/go/auth/oauth2adapt v0.2.8 // indirect
	cloud.google.com/go/compute/metadata v0.6.0 // indirect
	cloud.google.com/go/iam v1.4.2 // indirect
	cloud.google.com/go/pubsub v1.48.0 // indirect
	github.com/agext/levenshtein v1.2.3 // indirect
	github.com/alecthomas/participle/v2 v2.1.4 // indirect
	github.com/apparentlymart/go-textseg/v15 v15.0.0 // indirect
	github.com/beorn7/perks v1.0.1 // indirect
	github.com/bmatcuk/doublestar v1.3.4 // indirect
	github.com/cespare/xxhash/v2 v2.3.0 // indirect
	github.com/felixge/httpsnoop v1.0.4 // indirect
	github.com/gabriel-vasile/mimetype v1.4.8 // indirect
	github.com/getkin/kin-openapi v0.131.0 // indirect
	github.com/gin-contrib/location v1.0.2 // indirect
	github.com/gin-contrib/sse v1.0.0 // indirect
	github.com/go-logr/logr v1.4.2 // indirect
	github.com/go-logr/stdr v1.2.2 // indirect
	github.com/go-openapi/inflect v0.21.0 // indirect
	github.com/go-openapi/jsonpointer v0.21.0 // indirect
	github.com/go-openapi/swag v0.23.0 // indirect
	github.com/go-playground/locales v0.14.1 // indirect
	github.com/go-playground/universal-translator v0.18.1 // indirect
	github.com/go-playground/validator/v10 v10.25.0 // indirect
	github.com/golang/protobuf v1.5.4 // indirect
	github.com/google/go-cmp v0.7.0 // indirect
	github.com/google/s2a-go v0.1.9 // indirect
	github.com/googleapis/enterprise-certificate-proxy v0.3.6 // indirect
	github.com/googleapis/gax-go/v2 v2.14.1 // indirect
	github.com/grpc-ecosystem/go-grpc-prometheus v1.2.0 // indirect
	github.com/grpc-ecosystem/grpc-gateway/v2 v2.26.3 // indirect
	github.com/hashicorp/hcl/v2 v2.23.0 // indirect
	github.com/iancoleman/strcase v0.3.0 // indirect
	github.com/jackc/pgpassfile v1.0.0 // indirect
	github.com/jackc/pgservicefile v0.0.0-20240606120523-5a60cdf6a761 // indirect
	github.com/jackc/puddle/v2 v2.2.2 // indirect
	github.com/jmoiron/sqlx v1.4.0 // indirect
	github.com/josharian/intern v1.0.0 // indirect
	github.com/leodido/go-urn v1.4.0 // indirect
	github.com/mailru/easyjson v0.9.0 // indirect
	github.com/mattn/go-colorable v0.1.14 // indirect
	github.com/mattn/go-isatty v0.0.20 // indirect
	github.com/mitchellh/go-wordwrap v1.0.1 // indirect
	github.com/mohae/deepcopy v0.0.0-20170929034955-c48cc78d4826 // indirect
	github.com/munnerz/goautoneg v0.0.0-20191010083416-a7dc8b61c822 // indirect
	github.com/oasdiff/yaml v0.0.0-20250309154309-f31be36b4037 // indirect
	github.com/oasdiff/yaml3 v0.0.0-20250309153720-d2182401db90 // indirect
	github.com/pelletier/go-toml/v2 v2.2.3 // indirect
	github.com/perimeterx/marshmallow v1.1.5 // indirect
	github.com/prometheus/client_model v0.6.1 // indirect
	github.com/prometheus/common v0.63.0 // indirect
	github.com/prometheus/procfs v0.15.1 // indirect
	github.com/ugorji/go/codec v1.2.12 // indirect
	github.com/zclconf/go-cty v1.15.1 // indirect
	github.com/zclconf/go-cty-yaml v1.1.0 // indirect
	go.opencensus.io v0.24.0 // indirect
	go.opentelemetry.io/auto/sdk v1.1.0 // indirect
	go.opentelemetry.io/contrib/instrumentation/google.golang.org/grpc/otelgrpc v0.60.0 // indirect
	go.opentelemetry.io/contrib/instrumentation/net/http/otelhttp v0.60.0 // indirect
	go.opentelemetry.io/otel v1.35.0 // indirect
	go.opentelemetry.io/otel/metric v1.35.0 // indirect
	go.opentelemetry.io/otel/trace v1.35.0 // indirect
	go.uber.org/dig v1.18.1 // indirect
	go.uber.org/fx v1.23.0 // indirect
	go.uber.org/multierr v1.11.0 // indirect
	go.uber.org/zap v1.27.0 // indirect
	golang.org/x/crypto v0.36.0 // indirect
	golang.org/x/mod v0.24.0 // indirect
	golang.org/x/net v0.38.0 // indirect
	golang.org/x/oauth2 v0.28.0 // indirect
	golang.org/x/sync v0.12.0 // indirect
	golang.org/x/sys v0.31.0 // indirect
	golang.org/x/text v0.23.0 // indirect
	golang.org/x/time v0.11.0 // indirect
	google.golang.org/api v0.228.0 // indirect
	google.golang.org/genproto v0.0.0-20250313205543-e70fdf4c4cb4 // indirect
	google.golang.org/genproto/googleapis/api v0.0.0-20250313205543-e70fdf4c4cb4 // indirect
	google.golang.org/genproto/googleapis/rpc v0.0.0-20250313205543-e70fdf4c4cb4 // indirect
	gopkg.in/yaml.v3 v3.0.1 // indirect
)

replace go.6river.tech/mmmbbb => /repo
