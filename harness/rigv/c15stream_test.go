package rigv

import (
	"fmt"
	"sort"
	"strings"
	"testing"
	"time"

	"google.golang.org/protobuf/types/known/durationpb"

	"go.6river.tech/mmmbbb/actions"
	"go.6river.tech/mmmbbb/grpc/pubsubpb"
	"go.6river.tech/mmmbbb/services"

	"verif/harness/evd"
	"verif/harness/rig"
)

// TestC15stream: pruning is invisible to a client that holds a stream open. The
// histories of the other C15 parts keep no stream across a job (a stream has
// state of its own - the set of messages it believes outstanding - which the
// jobs' deletions must not confuse).
//
// Twin scripts, identical up to the jobs: a stream with a small window receives
// messages and settles some of them (ack / nack / external ack / nothing); time
// passes (sometimes beyond the retention of what is outstanding); [twin B only:
// every prune job runs, in a seeded order, with a small age threshold]; more is
// published. What the stream sends from then on must be the same in both twins.
func TestC15stream(t *testing.T) {
	cfg := evd.Env()
	col := evd.New("C15", cfg)
	defer col.Flush()
	n := cfg.N(96, 2400)
	var pairs, same, jobRows int64
	jobs := []string{"prune-completed-deliveries", "prune-expired-deliveries", "prune-completed-messages",
		"prune-deleted-subscription-deliveries", "prune-deleted-subscriptions", "prune-deleted-topics"}
	for i := 0; i < n; i++ {
		seed := cfg.CaseSeed("C15stream", i)
		if !cfg.Want(i, seed) {
			continue
		}
		run := func(withJobs bool) (trace []string, deleted int) {
			rig.SetWatchdogContext(fmt.Sprintf("C15stream case %d jobs=%v", i, withJobs))
			rig.RunCase(t, seed, rig.Opts{}, func(e *rig.Env) {
				r := e.Rand
				topic, sub := "projects/p/topics/t", "projects/p/subscriptions/s"
				mkTopic(e, topic)
				retention := []time.Duration{20 * time.Second, 10 * time.Minute}[r.Intn(2)]
				mkSub(e, &pubsubpb.Subscription{Name: sub, Topic: topic, MessageRetentionDuration: durationpb.New(retention),
					RetryPolicy: &pubsubpb.RetryPolicy{MinimumBackoff: durationpb.New(100 * time.Second), MaximumBackoff: durationpb.New(200 * time.Second)}})
				window := int64(1 + r.Intn(3))
				idx := map[string]int{}
				seq := 0
				publish := func(k int) {
					req := &pubsubpb.PublishRequest{Topic: topic}
					for j := 0; j < k; j++ {
						req.Messages = append(req.Messages, &pubsubpb.PubsubMessage{Data: []byte(fmt.Sprintf(`{"n":%d}`, seq+j))})
					}
					resp := must(e.Pub.Publish(e.Ctx, req))
					for j, id := range resp.MessageIds {
						idx[id] = seq + j
					}
					seq += k
				}
				fs := rig.NewFakeStream(e.Actor("stream"))
				hdone := make(chan struct{})
				go func() { _ = e.Sub.StreamingPull(fs); close(hdone) }()
				fs.Push(&pubsubpb.StreamingPullRequest{Subscription: sub, StreamAckDeadlineSeconds: 10, MaxOutstandingMessages: window})
				settle := func() {
					for j := 0; j < 30; j++ {
						rig.Quiesce()
						time.Sleep(time.Millisecond)
					}
					rig.Quiesce()
				}
				var held []string // ack ids the stream holds
				observe := func(label string) {
					var got []string
					for _, b := range fs.Take() {
						for _, rm := range b.Msgs {
							got = append(got, fmt.Sprintf("%d#%d", idx[rm.Message.MessageId], rm.DeliveryAttempt))
							held = append(held, rm.AckId)
						}
					}
					sort.Strings(got)
					trace = append(trace, label+": "+strings.Join(got, ","))
				}
				publish(int(window) + r.Intn(3))
				settle()
				observe("first")
				// settle some of what the stream holds
				var keep []string
				for _, id := range held {
					switch r.Intn(5) {
					case 0:
						fs.Push(&pubsubpb.StreamingPullRequest{AckIds: []string{id}})
					case 1:
						must(e.Sub.Acknowledge(e.Actor("ext"), &pubsubpb.AcknowledgeRequest{Subscription: sub, AckIds: []string{id}}))
					default:
						keep = append(keep, id)
					}
				}
				held = keep
				settle()
				observe("after-acks")
				// time passes: sometimes past the retention of what is still outstanding
				time.Sleep([]time.Duration{2 * time.Second, 30 * time.Second, 30 * time.Second, 11 * time.Minute}[r.Intn(4)])
				settle()
				observe("after-wait")
				order := r.Perm(len(jobs))
				ages := []time.Duration{0, time.Second, time.Second}[r.Intn(3)]
				batch := []int{1, 3, 100}[r.Intn(3)]
				if withJobs {
					for round := 0; round < 3; round++ {
						for _, j := range order {
							nDel, err := services.VerifPruneRunOnce(e.Actor("job"), e.Client, jobs[j], actions.PruneCommonParams{MinAge: ages, MaxDelete: batch})
							if err == nil {
								deleted += nDel
							}
						}
					}
					settle()
				}
				observe("after-jobs")
				publish(1 + r.Intn(int(window)+1))
				settle()
				observe("after-publish")
				// free whatever is still held and see the rest arrive
				if len(held) > 0 {
					fs.Push(&pubsubpb.StreamingPullRequest{AckIds: held})
					held = nil
				}
				settle()
				observe("after-final-acks")
				fs.Cancel()
				<-hdone
				rig.Quiesce()
			})
			return
		}
		plain, _ := run(false)
		spliced, del := run(true)
		pairs++
		jobRows += int64(del)
		if strings.Join(plain, " | ") != strings.Join(spliced, " | ") {
			col.Violation("twin-trace-differs:open-stream", fmt.Sprintf("the same script (seed %d) with a stream held open gives the client something different when the prune jobs run in the middle (%d rows deleted): without jobs [%s], with jobs [%s]", seed, del, strings.Join(plain, " | "), strings.Join(spliced, " | ")),
				map[string]any{"case_seed": seed, "without_jobs": plain, "with_jobs": spliced})
		} else {
			same++
		}
		col.Case(evd.FP("stream-twin", strings.Join(plain, "|")), del > 0)
		if i < 2 {
			col.Sample(map[string]any{"without_jobs": plain, "with_jobs": spliced, "rows_deleted_by_jobs": del})
		}
	}
	col.Add("ev_stream_twin_pairs", pairs)
	col.Add("ev_stream_twin_pairs_identical", same)
	col.Add("ev_rows_deleted_by_jobs_under_an_open_stream", jobRows)
	col.Add("relevant_events", jobRows)
}
