package rigv

import (
	"os"
	"testing"
	"time"

	"verif/harness/rig"
)

func TestMain(m *testing.M) {
	rig.StartWatchdog(8*time.Minute, os.Stdout)
	os.Exit(m.Run())
}
