package rigv

import (
	"fmt"
	"math/rand"
	"os"
	"runtime"
	"sort"
	"strings"
	"sync"
	"sync/atomic"
	"testing"
	"time"

	"google.golang.org/protobuf/types/known/durationpb"

	"go.6river.tech/mmmbbb/grpc/pubsubpb"

	"verif/harness/evd"
	"verif/harness/ref"
	"verif/harness/rig"
	"verif/harness/seam"
)

// C11: a streaming pull never has more than max_outstanding_messages /
// max_outstanding_bytes sent-but-unsettled, and whenever capacity is freed (ack
// or nack on the stream, Acknowledge outside it) and deliverable messages
// remain, it sends more - at quiescence, i.e. without any timer.

type c11Msg struct {
	id      string // message id
	ackID   string
	size    int
	state   string // due | out | acked | leased (handed out by a unary pull before the stream opened)
	leaseHi time.Time
	extNack bool // made due by a unary ModifyAckDeadline(0): still occupies its slot
	sends   int
}

type c11Ledger struct {
	mu       sync.Mutex
	byMsg    map[string]*c11Msg
	byAck    map[string]*c11Msg
	maxMsgs  int
	maxBytes int
	viol     []string
	sends    int
	fullHits int // sends that brought the stream exactly to its message limit
	maxSeen  int
}

func (l *c11Ledger) outstanding(min bool, now time.Time) (n, bytes int) {
	for _, m := range l.byMsg {
		if m.state != "out" && !(m.state == "acking" && !min) {
			continue
		}
		if min && !m.leaseHi.After(now) {
			continue // lease certainly lapsed: "expired" in the statement's sense
		}
		n++
		bytes += m.size
	}
	return
}

func (l *c11Ledger) onSend(b rig.SentBatch) {
	l.mu.Lock()
	defer l.mu.Unlock()
	now := time.Now()
	for _, rm := range b.Msgs {
		m := l.byMsg[rm.Message.MessageId]
		if m == nil {
			l.viol = append(l.viol, "unknown-message|stream sent unknown message "+rm.Message.MessageId)
			continue
		}
		if m.state == "acking" {
			// sent while an Acknowledge for it is in flight: the ack lost the race
			// against the lease; whether that is legitimate is C03/C04's concern
			m.state = "out"
		}
		if m.state == "acked" {
			l.viol = append(l.viol, fmt.Sprintf("sent-after-ack|message %s sent on the stream after it was acknowledged", m.id[:8]))
		}
		m.ackID = rm.AckId
		l.byAck[rm.AckId] = m
		m.state = "out"
		m.extNack = false
		m.sends++
		// lease: at least the minimum backoff of this test (100 s)
		m.leaseHi = now.Add(100 * time.Second)
		l.sends++
	}
	n, bytes := l.outstanding(true, now)
	if n > l.maxSeen {
		l.maxSeen = n
	}
	if n == l.maxMsgs {
		l.fullHits++
	}
	if n > l.maxMsgs {
		l.viol = append(l.viol, fmt.Sprintf("messages-exceed-limit|after a send of %d message(s) %d are outstanding, max_outstanding_messages is %d", len(b.Msgs), n, l.maxMsgs))
	}
	if bytes > l.maxBytes && n > 1 {
		l.viol = append(l.viol, fmt.Sprintf("bytes-exceed-limit|after a send %d bytes in %d messages are outstanding, max_outstanding_bytes is %d", bytes, n, l.maxBytes))
	}
}

// stalled returns a description if, at quiescence, capacity and a deliverable
// fitting message are both available.
func (l *c11Ledger) stalled() string {
	l.mu.Lock()
	defer l.mu.Unlock()
	now := time.Now()
	n, bytes := l.outstanding(false, now)
	freeMsgs := l.maxMsgs - n
	freeBytes := l.maxBytes - bytes
	if freeMsgs < 1 {
		return ""
	}
	// is there a due message that does NOT fit the remaining byte budget? Then
	// the shape is "head of line": the fetch may have picked that one
	tooBig := false
	for _, m := range l.byMsg {
		if m.state == "due" && m.size > freeBytes && n > 0 {
			tooBig = true
		}
	}
	for _, m := range l.byMsg {
		if m.state != "due" {
			continue
		}
		if m.size <= freeBytes || n == 0 {
			shape := "plain"
			if tooBig {
				shape = "byte-head-of-line"
			}
			return shape + "|" + fmt.Sprintf("%d of %d message slots and %d of %d bytes are free, message %s (%d bytes) is deliverable, nothing was sent", freeMsgs, l.maxMsgs, freeBytes, l.maxBytes, m.id[:8], m.size)
		}
	}
	return ""
}

// headOfLinePossible decides, for a stall that has already been established,
// whether the known head-of-line defect can explain it: the sender's fetch takes
// the first L = min(free message slots, 100) due deliveries in attempt_at order
// and drops those that do not fit the byte budget. It explains the stall only if
// those first L rows can all be oversized (rows with equal attempt_at may come
// in either order).
func (l *c11Ledger) headOfLinePossible(d rig.Dump) bool {
	l.mu.Lock()
	defer l.mu.Unlock()
	now := time.Now()
	n, bytes := l.outstanding(false, now)
	L := l.maxMsgs - n
	if L > 100 {
		L = 100
	}
	freeBytes := l.maxBytes - bytes
	type row struct {
		at  time.Time
		big bool
	}
	var rows []row
	for _, r := range d["deliveries"] {
		if r["completed_at"] != "NULL" {
			continue
		}
		at, err1 := time.Parse(time.RFC3339Nano, r["attempt_at"])
		exp, err2 := time.Parse(time.RFC3339Nano, r["expires_at"])
		m := l.byMsg[r["message_id"]]
		if err1 != nil || err2 != nil || m == nil {
			return true // cannot classify: leave it with the known finding
		}
		if at.After(now) || !exp.After(now) {
			continue
		}
		rows = append(rows, row{at, m.size > freeBytes})
	}
	if L < 1 || len(rows) <= L {
		// the fetch saw every due row: an oversized one cannot hide a fitting one
		return false
	}
	sort.Slice(rows, func(i, j int) bool { return rows[i].at.Before(rows[j].at) })
	cutoff := rows[L-1].at
	before, tieBig := 0, 0
	for _, r := range rows {
		switch {
		case r.at.Before(cutoff):
			if !r.big {
				return false // a fitting row certainly within the LIMIT
			}
			before++
		case r.at.Equal(cutoff) && r.big:
			tieBig++
		}
	}
	return tieBig >= L-before
}

// dueRows describes the delivery rows of the messages the ledger holds
// deliverable (diagnosis only).
func (l *c11Ledger) dueRows(d rig.Dump) string {
	l.mu.Lock()
	defer l.mu.Unlock()
	now := time.Now()
	var out []string
	for _, r := range d["deliveries"] {
		m := l.byMsg[r["message_id"]]
		if m == nil || r["completed_at"] != "NULL" {
			continue
		}
		at, _ := time.Parse(time.RFC3339Nano, r["attempt_at"])
		out = append(out, fmt.Sprintf("%s(%s %dB attempts=%s attempt_at=now%+v)", m.id[:8], m.state, m.size, r["attempts"], at.Sub(now)))
	}
	sort.Strings(out)
	return strings.Join(out, " ")
}

// leasedInDB: every message the ledger holds deliverable is, in the database,
// leased into the future.
func (l *c11Ledger) leasedInDB(d rig.Dump) bool {
	l.mu.Lock()
	defer l.mu.Unlock()
	now := time.Now()
	n := 0
	for _, r := range d["deliveries"] {
		m := l.byMsg[r["message_id"]]
		if m == nil || m.state != "due" || r["completed_at"] != "NULL" {
			continue
		}
		at, err := time.Parse(time.RFC3339Nano, r["attempt_at"])
		if err != nil || !at.After(now) {
			return false
		}
		n++
	}
	return n > 0
}

type lockedRand struct {
	mu sync.Mutex
	r  *rand.Rand
}

func (l *lockedRand) Intn(n int) int { l.mu.Lock(); defer l.mu.Unlock(); return l.r.Intn(n) }

func TestC11(t *testing.T) {
	cfg := evd.Env()
	col := evd.New("C11", cfg)
	defer col.Flush()
	n := cfg.N(480, 16000)
	var freed, fullTotal, sendsTotal, lapses, promptDone int64
	for i := 0; i < n; i++ {
		seed := cfg.CaseSeed("C11", i)
		if !cfg.Want(i, seed) {
			continue
		}
		rig.SetWatchdogContext(fmt.Sprintf("C11 case %d seed %d", i, seed))
		rig.RunCase(t, seed, rig.Opts{}, func(e *rig.Env) {
			r := e.Rand
			lr := &lockedRand{r: rand.New(rand.NewSource(seed ^ 0x11))}
			topic, sub := "projects/p/topics/t", "projects/p/subscriptions/s"
			mkTopic(e, topic)
			mkSub(e, &pubsubpb.Subscription{Name: sub, Topic: topic, RetryPolicy: &pubsubpb.RetryPolicy{MinimumBackoff: durationpb.New(100 * time.Second), MaximumBackoff: durationpb.New(200 * time.Second)}})
			sizes := [][]int{{10}, {10, 40}, {10, 40, 100, 200}, {40, 40, 200}}[r.Intn(4)]
			maxMsgs := []int64{1, 1, 2, 3, 3, 10, 1000, 0}[r.Intn(8)]
			maxBytes := []int64{0, 0, 30, 50, 120, 300}[r.Intn(6)]
			led := &c11Ledger{byMsg: map[string]*c11Msg{}, byAck: map[string]*c11Msg{}, maxMsgs: int(maxMsgs), maxBytes: int(maxBytes)}
			if maxMsgs <= 0 {
				led.maxMsgs = 1000
			}
			if maxBytes <= 0 {
				led.maxBytes = 10 * 1024 * 1024
			}
			var trace []string
			publish := func(k int) {
				req := &pubsubpb.PublishRequest{Topic: topic}
				var sz []int
				for j := 0; j < k; j++ {
					s := sizes[r.Intn(len(sizes))]
					sz = append(sz, s)
					req.Messages = append(req.Messages, &pubsubpb.PubsubMessage{Data: []byte(`"` + strings.Repeat("x", s-2) + `"`)})
				}
				// (the ledger lock is held across the call so that a send of the new
				// message cannot be observed before the ledger knows its id)
				led.mu.Lock()
				resp := must(e.Pub.Publish(e.Ctx, req))
				for j, id := range resp.MessageIds {
					led.byMsg[id] = &c11Msg{id: id, size: sz[j], state: "due"}
				}
				led.mu.Unlock()
				trace = append(trace, fmt.Sprintf("publish %v", sz))
			}
			// some cases first hand a few small messages out through a unary pull: they
			// are leased elsewhere while the stream runs and become deliverable again
			// purely by the passage of time (step "lease-lapse")
			directed := i%5 == 4
			large := !directed && i%7 == 6
			prompt := !directed && !large && i%3 == 1
			if large {
				sizes = []int{10}
				maxMsgs, maxBytes = []int64{150, 1000, 0, 120}[r.Intn(4)], 0
				led.maxMsgs, led.maxBytes = int(maxMsgs), 10*1024*1024
				if maxMsgs <= 0 {
					led.maxMsgs = 1000
				}
			}
			var leaseEnd time.Time
			if directed {
				// byte-bound shape: something outstanding, a due message that is too big
				// for the rest of the budget, and a small one that will become due by time
				sizes = []int{10, 40, 70}
				maxMsgs, maxBytes = []int64{2, 3, 10}[r.Intn(3)], 100
				led.maxMsgs, led.maxBytes = int(maxMsgs), int(maxBytes)
			}
			prePull := func(k int) {
				req := &pubsubpb.PublishRequest{Topic: topic}
				small := sizes[0]
				for j := 0; j < k; j++ {
					req.Messages = append(req.Messages, &pubsubpb.PubsubMessage{Data: []byte(`"` + strings.Repeat("y", small-2) + `"`)})
				}
				resp := must(e.Pub.Publish(e.Ctx, req))
				for _, id := range resp.MessageIds {
					led.byMsg[id] = &c11Msg{id: id, size: small, state: "due"}
				}
				pr := must(e.Sub.Pull(e.Actor("ext"), &pubsubpb.PullRequest{Subscription: sub, MaxMessages: int32(k), ReturnImmediately: true}))
				leaseEnd = time.Now().Add(ref.Backoff(100*time.Second, 200*time.Second, 1) + ref.JitterBound + time.Second)
				for _, rm := range pr.ReceivedMessages {
					m := led.byMsg[rm.Message.MessageId]
					m.state, m.ackID = "leased", rm.AckId
					led.byAck[rm.AckId] = m
				}
				trace = append(trace, fmt.Sprintf("unary-pull-before-stream %d x %d bytes", len(pr.ReceivedMessages), small))
			}
			if directed || r.Intn(3) == 0 {
				prePull(1 + r.Intn(3))
			}
			if large {
				// more than one fetch's worth (the sender fetches at most 100 at a time)
				// under a window that is larger than that
				publish(60 + r.Intn(40))
				publish(60 + r.Intn(40))
				if r.Intn(2) == 0 {
					publish(40 + r.Intn(60))
				}
			} else if directed {
				req := &pubsubpb.PublishRequest{Topic: topic}
				var sz []int
				for _, s := range [][]int{{40, 70}, {70, 40}, {40, 70, 70}, {40, 40, 70}}[r.Intn(4)] {
					sz = append(sz, s)
					req.Messages = append(req.Messages, &pubsubpb.PubsubMessage{Data: []byte(`"` + strings.Repeat("x", s-2) + `"`)})
				}
				resp := must(e.Pub.Publish(e.Ctx, req))
				for j, id := range resp.MessageIds {
					led.byMsg[id] = &c11Msg{id: id, size: sz[j], state: "due"}
				}
				trace = append(trace, fmt.Sprintf("publish %v", sz))
			} else {
				publish(3 + r.Intn(10))
			}
			// schedule noise: virtual delays at the stream's transaction boundaries and sends
			// while the case waits for leases to run out the stream's boundary delays are
			// long: in one state (byte budget binding, oversized message due) the sender
			// re-fetches in a tight loop, and virtual minutes of that cost real ones
			var slow atomic.Bool
			seam.C.SetBoundaryDelays(
				func(actor string) time.Duration {
					if actor == "stream" && slow.Load() {
						return time.Duration(500+lr.Intn(1000)) * time.Millisecond
					}
					if actor == "stream" || actor == "ext" {
						return time.Duration(lr.Intn(3)) * time.Millisecond
					}
					return 0
				},
				func(actor string) time.Duration {
					if actor == "stream" || actor == "ext" {
						return time.Duration(lr.Intn(3)) * time.Millisecond
					}
					return 0
				})
			// the stream re-reads what is outstanding with a plain query; what it does
			// with the answer comes a moment later
			seam.C.SetAutoQueryDelay(func(actor string) time.Duration {
				if actor == "stream" && !slow.Load() {
					return time.Duration(lr.Intn(4)) * time.Millisecond
				}
				return 0
			})
			fs := rig.NewFakeStream(e.Actor("stream"))
			fs.OnSend = led.onSend
			fs.SendDelay = func() time.Duration { return time.Duration(lr.Intn(3)) * time.Millisecond }
			// a prompt client: it acknowledges (or gives back) a message the moment it
			// has it, which can be before the server's Send call has returned - the
			// stream's bookkeeping for a batch must be in place before the batch leaves
			var promptAcks []string
			if prompt {
				fs.SendLag = func() time.Duration { return time.Duration(1+lr.Intn(3)) * time.Millisecond }
				fs.OnSend = func(b rig.SentBatch) {
					led.onSend(b)
					req := &pubsubpb.StreamingPullRequest{}
					led.mu.Lock()
					for _, rm := range b.Msgs {
						m := led.byAck[rm.AckId]
						if m == nil {
							continue
						}
						switch lr.Intn(4) {
						case 0, 1:
							m.state = "acking"
							promptAcks = append(promptAcks, rm.AckId)
							req.AckIds = append(req.AckIds, rm.AckId)
							promptDone++
						case 2:
							if m.sends < 3 {
								m.state = "due"
								req.ModifyDeadlineAckIds = append(req.ModifyDeadlineAckIds, rm.AckId)
								req.ModifyDeadlineSeconds = append(req.ModifyDeadlineSeconds, 0)
								promptDone++
							}
						}
					}
					led.mu.Unlock()
					if len(req.AckIds)+len(req.ModifyDeadlineAckIds) > 0 {
						go fs.Push(req)
					}
				}
			}
			hdone := make(chan struct{})
			var herr error
			go func() { herr = e.Sub.StreamingPull(fs); close(hdone) }()
			fs.Push(&pubsubpb.StreamingPullRequest{Subscription: sub, StreamAckDeadlineSeconds: 10, MaxOutstandingMessages: maxMsgs, MaxOutstandingBytes: maxBytes})
			settle := func() {
				// quiescence, allowing for the scheduled (bounded) delays only: at least 40
				// virtual milliseconds, and on for as long as the stream keeps sending (a
				// large window works a backlog off a few messages per fetch, every fetch
				// with its injected delays) - a sender that spins without sending anything
				// is not waited for
				lastSends, idle := -1, 0
				for j := 0; j < 20000; j++ {
					rig.Quiesce()
					time.Sleep(time.Millisecond)
					led.mu.Lock()
					n := led.sends
					led.mu.Unlock()
					if n != lastSends {
						lastSends, idle = n, 0
					} else {
						idle++
					}
					if j >= 40 && idle >= 40 {
						break
					}
				}
				rig.Quiesce()
				led.mu.Lock()
				for _, id := range promptAcks {
					if m := led.byAck[id]; m != nil && m.state == "acking" && m.ackID == id {
						m.state = "acked"
					}
				}
				promptAcks = nil
				led.mu.Unlock()
			}
			settle()
			checkStall := func(after string) {
				if s := led.stalled(); s != "" {
					parts := strings.SplitN(s, "|", 2)
					if os.Getenv("VERIF_DEBUG_STACKS") != "" {
						buf := make([]byte, 1<<20)
						fmt.Fprintf(os.Stderr, "STALL %s\n%s\n", s, buf[:runtime.Stack(buf, true)])
					}
					dump := must(rig.TakeDump(e.RawDB()))
					parts[1] += "; incomplete delivery rows (ledger state, size, attempts, attempt_at): " + led.dueRows(dump)
					if led.leasedInDB(dump) {
						// the message the client nacked (or whose lease ran out) carries a
						// lease in the database that nobody asked for
						parts[0] += ":leased-again-in-db"
					}
					// which shape: replay the sender's fetch on the rows that are due in the
					// database (this includes rows of messages that are outstanding on this
					// very stream but whose lease has lapsed: a gRPC stream does not extend
					// leases by itself)
					switch hol := led.headOfLinePossible(dump); {
					case hol:
						parts[0] = strings.Replace(strings.Replace(parts[0], "plain", "byte-head-of-line", 1), "fitting-message-within-fetch-limit", "byte-head-of-line", 1)
					case strings.HasPrefix(parts[0], "byte-head-of-line"):
						// an oversized message is waiting, but it cannot be what starved the
						// fetch: a fitting message sorts within the fetch's LIMIT
						parts[0] = strings.Replace(parts[0], "byte-head-of-line", "fitting-message-within-fetch-limit", 1)
					}
					led.mu.Lock()
					led.viol = append(led.viol, "stall:"+parts[0]+":after-"+after+"|after "+after+": "+parts[1])
					led.mu.Unlock()
				}
			}
			checkStall("open")
			outIDs := func() []string {
				led.mu.Lock()
				defer led.mu.Unlock()
				var ids []string
				for _, m := range led.byMsg {
					if m.state == "out" {
						ids = append(ids, m.ackID)
					}
				}
				sort.Strings(ids)
				return ids
			}
			leasedIDs := func() []string {
				led.mu.Lock()
				defer led.mu.Unlock()
				var ids []string
				for _, m := range led.byMsg {
					if m.state == "leased" {
						ids = append(ids, m.ackID)
					}
				}
				sort.Strings(ids)
				return ids
			}
			pick := func(ids []string) []string {
				var out []string
				for _, id := range ids {
					if r.Intn(2) == 0 {
						out = append(out, id)
					}
				}
				if len(out) == 0 && len(ids) > 0 {
					out = append(out, ids[r.Intn(len(ids))])
				}
				return out
			}
			steps := 6 + r.Intn(10)
			for s := 0; s < steps && len(led.viol) == 0; s++ {
				ids := outIDs()
				switch a := r.Intn(10); {
				case a < 3 && len(ids) > 0: // ack on the stream
					sel := pick(ids)
					// in flight until the stream has settled: a message whose lease has
					// lapsed may be re-sent by a fetch that ran before the ack was applied
					led.mu.Lock()
					for _, id := range sel {
						led.byAck[id].state = "acking"
					}
					led.mu.Unlock()
					fs.Push(&pubsubpb.StreamingPullRequest{AckIds: sel})
					trace = append(trace, fmt.Sprintf("stream-ack %d", len(sel)))
					settle()
					led.mu.Lock()
					for _, id := range sel {
						led.byAck[id].state = "acked"
					}
					led.mu.Unlock()
					freed++
					checkStall("stream-ack")
				case a < 5 && len(ids) > 0: // nack on the stream (zero deadline)
					sel := pick(ids)
					led.mu.Lock()
					for _, id := range sel {
						led.byAck[id].state = "due"
					}
					led.mu.Unlock()
					req := &pubsubpb.StreamingPullRequest{}
					for _, id := range sel {
						req.ModifyDeadlineAckIds = append(req.ModifyDeadlineAckIds, id)
						req.ModifyDeadlineSeconds = append(req.ModifyDeadlineSeconds, 0)
					}
					fs.Push(req)
					trace = append(trace, fmt.Sprintf("stream-nack %d", len(sel)))
					settle()
					freed++
					checkStall("stream-nack")
				case a < 7 && len(ids) > 0: // Acknowledge outside the stream
					sel := pick(ids)
					// from the moment the call is made the ack may have taken effect: for the
					// bound these no longer count (the stream may already re-use the slots
					// while the call is still returning), for the no-stall check they do
					// until the call has returned
					led.mu.Lock()
					for _, id := range sel {
						led.byAck[id].state = "acking"
					}
					led.mu.Unlock()
					racing := r.Intn(2) == 0
					if racing {
						// a publish right before it: the stream is busy digesting that
						// wake-up (re-reading what is outstanding) when the ack commits
						publish(1)
					}
					must(e.Sub.Acknowledge(e.Actor("ext"), &pubsubpb.AcknowledgeRequest{Subscription: sub, AckIds: sel}))
					led.mu.Lock()
					for _, id := range sel {
						led.byAck[id].state = "acked"
					}
					led.mu.Unlock()
					trace = append(trace, fmt.Sprintf("external-ack %d", len(sel)))
					settle()
					freed++
					checkStall("external-ack")
				case a < 8 && len(ids) > 0: // deadline extension on the stream: frees nothing
					sel := pick(ids)
					req := &pubsubpb.StreamingPullRequest{}
					for _, id := range sel {
						req.ModifyDeadlineAckIds = append(req.ModifyDeadlineAckIds, id)
						req.ModifyDeadlineSeconds = append(req.ModifyDeadlineSeconds, 30)
					}
					fs.Push(req)
					trace = append(trace, fmt.Sprintf("stream-extend %d", len(sel)))
					settle()
				case (a == 8 || directed && s == 0) && len(leasedIDs()) > 0: // the leases held elsewhere run out
					// nothing wakes the stream for this: a message becomes deliverable purely
					// because time passes. The property promises promptness for capacity
					// freed by acks and nacks; for this it promises "never stalls", which is
					// checked as bounded progress: the message has to be sent within 70
					// virtual seconds (the stream's fetch gives up and starts over after 59)
					slow.Store(true)
					sel := leasedIDs()
					if d := time.Until(leaseEnd); d > 0 {
						time.Sleep(d)
					}
					led.mu.Lock()
					for _, id := range sel {
						if m := led.byAck[id]; m.state == "leased" {
							m.state = "due"
						}
					}
					led.mu.Unlock()
					trace = append(trace, fmt.Sprintf("lease-lapse %d", len(sel)))
					settle()
					for w := 0; w < 70 && led.stalled() != ""; w++ {
						time.Sleep(time.Second)
						settle()
					}
					slow.Store(false)
					time.Sleep(2 * time.Second) // a long boundary delay that is already running ends
					settle()
					lapses++
					checkStall("lease-lapse")
				default:
					publish(1 + r.Intn(4))
					settle()
					checkStall("publish")
				}
			}
			led.mu.Lock()
			viol := append([]string{}, led.viol...)
			fullTotal += int64(led.fullHits)
			sendsTotal += int64(led.sends)
			nontrivial := led.fullHits > 0
			maxSeen := led.maxSeen
			led.mu.Unlock()
			for _, v := range viol {
				parts := strings.SplitN(v, "|", 2)
				col.Violation(parts[0], fmt.Sprintf("max_outstanding_messages=%d max_outstanding_bytes=%d sizes=%v: %s; actions: %s", maxMsgs, maxBytes, sizes, parts[1], strings.Join(trace, ", ")),
					map[string]any{"case_seed": seed, "max_messages": maxMsgs, "max_bytes": maxBytes, "sizes": sizes, "actions": trace})
			}
			col.Case(evd.FP(maxMsgs, maxBytes, sizes, strings.Join(trace, ",")), nontrivial)
			col.Max("max_outstanding_seen", int64(maxSeen))
			if i < 3 {
				col.Sample(map[string]any{"max_messages": maxMsgs, "max_bytes": maxBytes, "sizes": sizes, "actions": trace, "sends": led.sends})
			}
			seam.C.SetBoundaryDelays(nil, nil)
			seam.C.SetAutoQueryDelay(nil)
			fs.Cancel()
			<-hdone
			_ = herr
			rig.Quiesce()
		})
	}
	col.Add("relevant_events", fullTotal+freed)
	col.Add("ev_sends_observed", sendsTotal)
	col.Add("ev_sends_reaching_the_message_limit", fullTotal)
	col.Add("ev_capacity_freeing_actions_checked_for_stall", freed)
	col.Add("ev_lease_lapses_checked_for_stall", lapses)
	col.Add("ev_acks_and_nacks_sent_before_send_returned", promptDone)
}
