package rigv

import (
	"fmt"
	"math"
	"math/rand"
	"sort"
	"strings"
	"testing"
	"time"

	"google.golang.org/protobuf/types/known/durationpb"
	"google.golang.org/protobuf/types/known/fieldmaskpb"

	"go.6river.tech/mmmbbb/actions"
	"go.6river.tech/mmmbbb/grpc/pubsubpb"
	"go.6river.tech/mmmbbb/services"

	"verif/harness/evd"
	"verif/harness/hist"
	"verif/harness/rig"
)

// C17: what was set is what Get/List return; an update changes exactly the
// masked fields; durations survive storage exactly.

type subCfg struct {
	labels    map[string]string
	retention time.Duration
	ttl       time.Duration
	ordered   bool
	filter    string
	minB      *time.Duration
	maxB      *time.Duration
	dlTopic   string
	dlMax     int32
	push      string
}

func (c subCfg) clone() subCfg {
	n := c
	if c.labels != nil {
		n.labels = map[string]string{}
		for k, v := range c.labels {
			n.labels[k] = v
		}
	}
	return n
}

var c17Durations = []time.Duration{1, 999, time.Microsecond, 1500 * time.Millisecond, 59*time.Minute + 59*time.Second + 999999999, time.Hour, 24 * time.Hour,
	30 * 24 * time.Hour, 365 * 24 * time.Hour, 100 * 365 * 24 * time.Hour, math.MaxInt64 / 4}

func pickDur(r *rand.Rand) time.Duration {
	if r.Intn(3) == 0 {
		return time.Duration(1 + r.Int63n(int64(400*24*time.Hour)))
	}
	return c17Durations[r.Intn(len(c17Durations))]
}

func pickLabels(r *rand.Rand) map[string]string {
	switch r.Intn(5) {
	case 0:
		return nil
	case 1:
		return map[string]string{}
	case 2:
		return map[string]string{"": ""}
	case 3:
		return map[string]string{"ünï": "çödé", "k": "<>&\"", "long": strings.Repeat("v", 300)}
	}
	return map[string]string{"a": fmt.Sprint(r.Intn(100)), "b": "x"}
}

func labelsEq(a, b map[string]string) bool {
	if len(a) != len(b) {
		return false
	}
	for k, v := range a {
		if w, ok := b[k]; !ok || w != v {
			return false
		}
	}
	return true
}

func durEq(p *durationpb.Duration, want *time.Duration) bool {
	if want == nil {
		return p == nil
	}
	return p != nil && p.AsDuration() == *want
}

// diffSub compares a Get/List/Update response with the model.
func diffSub(got *pubsubpb.Subscription, name, topic string, c subCfg) []string {
	var d []string
	add := func(f string, g, w any) { d = append(d, fmt.Sprintf("%s: got %v, expected %v", f, g, w)) }
	if got.Name != name {
		add("name", got.Name, name)
	}
	if got.Topic != topic {
		add("topic", got.Topic, topic)
	}
	if !labelsEq(got.Labels, c.labels) {
		add("labels", got.Labels, c.labels)
	}
	if got.MessageRetentionDuration.AsDuration() != c.retention {
		add("message_retention_duration", got.MessageRetentionDuration.AsDuration(), c.retention)
	}
	if got.ExpirationPolicy.GetTtl().AsDuration() != c.ttl {
		add("expiration_policy.ttl", got.ExpirationPolicy.GetTtl().AsDuration(), c.ttl)
	}
	if got.EnableMessageOrdering != c.ordered {
		add("enable_message_ordering", got.EnableMessageOrdering, c.ordered)
	}
	if got.Filter != c.filter {
		add("filter", got.Filter, c.filter)
	}
	if c.minB == nil && c.maxB == nil {
		if got.RetryPolicy != nil {
			add("retry_policy", got.RetryPolicy, "absent")
		}
	} else {
		if !durEq(got.RetryPolicy.GetMinimumBackoff(), c.minB) {
			add("retry_policy.minimum_backoff", got.RetryPolicy.GetMinimumBackoff(), c.minB)
		}
		if !durEq(got.RetryPolicy.GetMaximumBackoff(), c.maxB) {
			add("retry_policy.maximum_backoff", got.RetryPolicy.GetMaximumBackoff(), c.maxB)
		}
	}
	if c.dlTopic == "" {
		if got.DeadLetterPolicy != nil {
			add("dead_letter_policy", got.DeadLetterPolicy, "absent")
		}
	} else if got.DeadLetterPolicy.GetDeadLetterTopic() != c.dlTopic || got.DeadLetterPolicy.GetMaxDeliveryAttempts() != c.dlMax {
		add("dead_letter_policy", got.DeadLetterPolicy, fmt.Sprintf("%s/%d", c.dlTopic, c.dlMax))
	}
	if got.PushConfig.GetPushEndpoint() != c.push {
		add("push_config.push_endpoint", got.PushConfig.GetPushEndpoint(), c.push)
	}
	if c.push == "" && got.PushConfig != nil {
		// a pull subscription has no push_config block, however it became one
		// (created without, created with an empty one, switched back by an update)
		add("push_config", "an (empty) block", "absent: this is a pull subscription")
	}
	sort.Strings(d)
	return d
}

func dp(d time.Duration) *time.Duration { return &d }

func TestC17(t *testing.T) {
	cfg := evd.Env()
	col := evd.New("C17", cfg)
	defer col.Flush()
	n := cfg.N(200, 40000)
	var creates, updates, fieldsChecked, jobsRun int64
	paths := []string{"labels", "expiration_policy", "message_retention_duration", "enable_message_ordering", "retry_policy", "push_config", "filter", "dead_letter_policy"}
	for i := 0; i < n; i++ {
		seed := cfg.CaseSeed("C17", i)
		if !cfg.Want(i, seed) {
			continue
		}
		rig.RunCase(t, seed, rig.Opts{Tick: time.Microsecond}, func(e *rig.Env) {
			r := e.Rand
			T, DL, DL2 := "projects/p/topics/t", "projects/p/topics/dl", "projects/p/topics/dl2"
			for _, tn := range []string{T, DL, DL2} {
				mkTopic(e, tn)
			}
			// topic labels round trip
			tl := pickLabels(r)
			tname := "projects/p/topics/labelled"
			must(e.Pub.CreateTopic(e.Ctx, &pubsubpb.Topic{Name: tname, Labels: tl}))
			if gt := must(e.Pub.GetTopic(e.Ctx, &pubsubpb.GetTopicRequest{Topic: tname})); !labelsEq(gt.Labels, tl) {
				col.Violation("topic-labels", fmt.Sprintf("topic created with labels %v, Get returns %v", tl, gt.Labels), map[string]any{"case_seed": seed})
			}
			tl2 := pickLabels(r)
			must(e.Pub.UpdateTopic(e.Ctx, &pubsubpb.UpdateTopicRequest{Topic: &pubsubpb.Topic{Name: tname, Labels: tl2}, UpdateMask: &fieldmaskpb.FieldMask{Paths: []string{"labels"}}}))
			if gt := must(e.Pub.GetTopic(e.Ctx, &pubsubpb.GetTopicRequest{Topic: tname})); !labelsEq(gt.Labels, tl2) {
				col.Violation("topic-labels-update", fmt.Sprintf("topic labels updated to %v, Get returns %v", tl2, gt.Labels), map[string]any{"case_seed": seed})
			}
			// subscription create with a random accepted configuration
			name := "projects/p/subscriptions/s"
			req := &pubsubpb.Subscription{Name: name, Topic: T}
			c := subCfg{retention: 7 * 24 * time.Hour, ttl: 30 * 24 * time.Hour}
			c.labels = pickLabels(r)
			req.Labels = c.labels
			if r.Intn(2) == 0 {
				c.retention = pickDur(r)
				req.MessageRetentionDuration = durationpb.New(c.retention)
			}
			switch r.Intn(3) {
			case 0:
				c.ttl = pickDur(r)
				req.ExpirationPolicy = &pubsubpb.ExpirationPolicy{Ttl: durationpb.New(c.ttl)}
			case 1:
				req.ExpirationPolicy = &pubsubpb.ExpirationPolicy{} // present but empty: default
			}
			c.ordered = r.Intn(2) == 0
			req.EnableMessageOrdering = c.ordered
			if r.Intn(2) == 0 {
				c.filter = []string{`attributes:a`, `attributes.a = "b" AND NOT attributes:c`, `hasPrefix(attributes."x y", "é")`}[r.Intn(3)]
				req.Filter = c.filter
			}
			switch r.Intn(4) {
			case 0:
				c.minB = dp(pickDur(r))
				req.RetryPolicy = &pubsubpb.RetryPolicy{MinimumBackoff: durationpb.New(*c.minB)}
			case 1:
				c.maxB = dp(pickDur(r))
				req.RetryPolicy = &pubsubpb.RetryPolicy{MaximumBackoff: durationpb.New(*c.maxB)}
			case 2:
				c.minB, c.maxB = dp(pickDur(r)), dp(pickDur(r))
				req.RetryPolicy = &pubsubpb.RetryPolicy{MinimumBackoff: durationpb.New(*c.minB), MaximumBackoff: durationpb.New(*c.maxB)}
			}
			switch r.Intn(3) {
			case 0:
				c.dlTopic, c.dlMax = DL, int32(1+r.Intn(100))
				req.DeadLetterPolicy = &pubsubpb.DeadLetterPolicy{DeadLetterTopic: DL, MaxDeliveryAttempts: c.dlMax}
			case 1:
				c.dlTopic, c.dlMax = DL, 5 // documented default
				req.DeadLetterPolicy = &pubsubpb.DeadLetterPolicy{DeadLetterTopic: DL}
			}
			if r.Intn(3) == 0 {
				c.push = "http://127.0.0.1:9/push?x=1&y=é"
				req.PushConfig = &pubsubpb.PushConfig{PushEndpoint: c.push}
			} else if (i+int(seed))%4 == 0 {
				req.PushConfig = &pubsubpb.PushConfig{} // present but empty: a pull subscription
			}
			created, err := e.Sub.CreateSubscription(e.Ctx, req)
			if err != nil {
				col.Violation("create-rejected", fmt.Sprintf("CreateSubscription with an acceptable configuration %v failed: %v", req, err), map[string]any{"case_seed": seed})
				return
			}
			creates++
			var trace []string
			check := func(what string, got *pubsubpb.Subscription) {
				fieldsChecked += 10
				if d := diffSub(got, name, T, c); len(d) > 0 {
					first := strings.SplitN(d[0], ":", 2)[0]
					col.Violation(what+":"+first, fmt.Sprintf("%s differs from what was set: %s; history: %s", what, strings.Join(d, " ; "), strings.Join(trace, " -> ")), map[string]any{"case_seed": seed, "history": trace})
				}
			}
			trace = append(trace, fmt.Sprintf("create %+v", c))
			check("create-response", created)
			check("get-after-create", must(e.Sub.GetSubscription(e.Ctx, &pubsubpb.GetSubscriptionRequest{Subscription: name})))
			ls := must(e.Sub.ListSubscriptions(e.Ctx, &pubsubpb.ListSubscriptionsRequest{Project: "projects/p"}))
			for _, s := range ls.Subscriptions {
				if s.Name == name {
					check("list-after-create", s)
				}
			}
			// sequences of masked updates
			for u := 0; u < 1+r.Intn(6); u++ {
				k := 1 + r.Intn(3)
				perm := r.Perm(len(paths))[:k]
				mask := make([]string, k)
				for j, p := range perm {
					mask[j] = paths[p]
				}
				body := &pubsubpb.Subscription{Name: name}
				nc := c.clone()
				// the body carries new values for ALL fields; only the masked ones may change
				newLabels := pickLabels(r)
				body.Labels = newLabels
				newTTL := pickDur(r)
				body.ExpirationPolicy = &pubsubpb.ExpirationPolicy{Ttl: durationpb.New(newTTL)}
				newRet := pickDur(r)
				body.MessageRetentionDuration = durationpb.New(newRet)
				// "back to the default": the field named in the mask is absent from
				// the body, or carries an explicit zero
				switch r.Intn(8) {
				case 0:
					body.ExpirationPolicy, newTTL = nil, 30*24*time.Hour
				case 1:
					body.ExpirationPolicy, newTTL = &pubsubpb.ExpirationPolicy{}, 30*24*time.Hour
				case 2:
					body.ExpirationPolicy, newTTL = &pubsubpb.ExpirationPolicy{Ttl: durationpb.New(0)}, 30*24*time.Hour
				}
				switch r.Intn(6) {
				case 0:
					body.MessageRetentionDuration, newRet = nil, 7*24*time.Hour
				case 1:
					body.MessageRetentionDuration, newRet = durationpb.New(0), 7*24*time.Hour
				}
				body.EnableMessageOrdering = r.Intn(2) == 0
				var nMin, nMax *time.Duration
				switch r.Intn(4) {
				case 0:
					body.RetryPolicy = nil
				case 1:
					nMin = dp(pickDur(r))
					body.RetryPolicy = &pubsubpb.RetryPolicy{MinimumBackoff: durationpb.New(*nMin)}
				case 2:
					nMax = dp(pickDur(r))
					body.RetryPolicy = &pubsubpb.RetryPolicy{MaximumBackoff: durationpb.New(*nMax)}
				default:
					nMin, nMax = dp(pickDur(r)), dp(pickDur(r))
					body.RetryPolicy = &pubsubpb.RetryPolicy{MinimumBackoff: durationpb.New(*nMin), MaximumBackoff: durationpb.New(*nMax)}
				}
				newPush := []string{"", "http://127.0.0.1:9/other"}[r.Intn(2)]
				body.PushConfig = &pubsubpb.PushConfig{PushEndpoint: newPush}
				newFilter := []string{"", `attributes:z`, `NOT attributes.q = "1"`}[r.Intn(3)]
				body.Filter = newFilter
				newDL, newDLMax := []string{"", DL, DL2}[r.Intn(3)], int32(r.Intn(4))
				if newDL != "" {
					body.DeadLetterPolicy = &pubsubpb.DeadLetterPolicy{DeadLetterTopic: newDL, MaxDeliveryAttempts: newDLMax}
				} else if r.Intn(2) == 0 {
					body.DeadLetterPolicy = &pubsubpb.DeadLetterPolicy{}
				}
				for _, p := range mask {
					switch p {
					case "labels":
						nc.labels = newLabels
					case "expiration_policy":
						nc.ttl = newTTL
					case "message_retention_duration":
						nc.retention = newRet
					case "enable_message_ordering":
						nc.ordered = body.EnableMessageOrdering
					case "retry_policy":
						nc.minB, nc.maxB = nMin, nMax
					case "push_config":
						nc.push = newPush
					case "filter":
						nc.filter = newFilter
					case "dead_letter_policy":
						nc.dlTopic, nc.dlMax = newDL, newDLMax
						if newDL == "" {
							nc.dlMax = 0
						} else if newDLMax == 0 {
							nc.dlMax = 5
						}
					}
				}
				resp, err := e.Sub.UpdateSubscription(e.Ctx, &pubsubpb.UpdateSubscriptionRequest{Subscription: body, UpdateMask: &fieldmaskpb.FieldMask{Paths: mask}})
				trace = append(trace, fmt.Sprintf("update mask=%v", mask))
				if err != nil {
					col.Violation("update-rejected", fmt.Sprintf("UpdateSubscription mask %v failed: %v; history %s", mask, err, strings.Join(trace, " -> ")), map[string]any{"case_seed": seed})
					return
				}
				updates++
				c = nc
				if resp != nil && resp.Name != "" {
					check("update-response", resp)
				}
				check("get-after-update", must(e.Sub.GetSubscription(e.Ctx, &pubsubpb.GetSubscriptionRequest{Subscription: name})))
			}
			// the world around the subscription changes - its dead-letter topics are
			// deleted, time passes, the maintenance jobs run - but nobody updates the
			// subscription: it must still read back as it was written
			if r.Intn(3) == 0 {
				for _, tn := range []string{DL, DL2, tname} {
					if r.Intn(3) > 0 {
						must(e.Pub.DeleteTopic(e.Ctx, &pubsubpb.DeleteTopicRequest{Topic: tn}))
						trace = append(trace, "delete-topic "+tn)
						if c.dlTopic == tn {
							// the policy stays, naming a topic that no longer exists (the
							// API's convention for that, as for a subscription's own topic)
							c.dlTopic = "_deleted-topic_"
						}
					}
				}
				time.Sleep([]time.Duration{time.Second, 2 * time.Hour}[r.Intn(2)])
				for round := 0; round < 2; round++ {
					for _, j := range r.Perm(len(hist.PruneJobs)) {
						if _, err := services.VerifPruneRunOnce(e.Actor("job"), e.Client, hist.PruneJobs[j], actions.PruneCommonParams{MinAge: []time.Duration{0, time.Second, time.Hour}[r.Intn(3)], MaxDelete: []int{1, 100}[r.Intn(2)]}); err == nil {
							jobsRun++
						}
					}
				}
				trace = append(trace, "maintenance jobs")
				check("get-after-maintenance", must(e.Sub.GetSubscription(e.Ctx, &pubsubpb.GetSubscriptionRequest{Subscription: name})))
				ls := must(e.Sub.ListSubscriptions(e.Ctx, &pubsubpb.ListSubscriptionsRequest{Project: "projects/p"}))
				for _, s := range ls.Subscriptions {
					if s.Name == name {
						check("list-after-maintenance", s)
					}
				}
			}
			col.Case(evd.FP(strings.Join(trace, "|")), true)
			if i < 2 {
				col.Sample(map[string]any{"history": trace})
			}
		})
	}
	col.Add("ev_subscriptions_created", creates)
	col.Add("ev_masked_updates", updates)
	col.Add("ev_maintenance_jobs_run_between_write_and_read", jobsRun)
	col.Add("ev_response_fields_compared", fieldsChecked)
	col.Add("relevant_events", creates+updates)
}
