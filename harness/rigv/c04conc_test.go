package rigv

import (
	"fmt"
	"math/rand"
	"sort"
	"strings"
	"sync"
	"testing"
	"time"

	"go.6river.tech/mmmbbb/grpc/pubsubpb"

	"verif/harness/evd"
	"verif/harness/rig"
	"verif/harness/seam"
)

// TestC04conc: the lease is exclusive between concurrent pullers. 2-4 pullers
// of one subscription run at the same time, their transactions interleaved at
// transaction boundaries by random virtual delays; no ack id may be handed out
// twice within one lease, attempt numbers must stay consecutive, and together
// the pullers must drain what is due.
func TestC04conc(t *testing.T) {
	cfg := evd.Env()
	col := evd.New("C04", cfg)
	defer col.Flush()
	n := cfg.N(200, 6000)
	var rounds, handed, deadlocks int64
	for i := 0; i < n; i++ {
		seed := cfg.CaseSeed("C04conc", i)
		if !cfg.Want(i, seed) {
			continue
		}
		rig.SetWatchdogContext(fmt.Sprintf("C04conc case %d", i))
		rig.RunCase(t, seed, rig.Opts{}, func(e *rig.Env) {
			r := e.Rand
			lr := &lockedRand{r: rand.New(rand.NewSource(seed ^ 0x7e57))}
			topic, sub := "projects/p/topics/t", "projects/p/subscriptions/s"
			mkTopic(e, topic)
			mkSub(e, &pubsubpb.Subscription{Name: sub, Topic: topic})
			nm := 3 + r.Intn(20)
			pubN(e, topic, nm, "", i)
			attempts := map[string]int{} // ack id -> last attempt seen
			var order []string
			var omu sync.Mutex
			seam.C.SetBoundaryObserver(func(actor string, kind seam.Kind) {
				if strings.HasPrefix(actor, "pl") {
					omu.Lock()
					order = append(order, actor+string(kind[0]))
					omu.Unlock()
				}
			})
			seam.C.SetBoundaryDelays(
				func(actor string) time.Duration {
					if strings.HasPrefix(actor, "pl") {
						return time.Duration(lr.Intn(4)) * time.Millisecond
					}
					return 0
				},
				func(actor string) time.Duration {
					if strings.HasPrefix(actor, "pl") {
						return time.Duration(lr.Intn(4)) * time.Millisecond
					}
					return 0
				})
			for round := 0; round < 3; round++ {
				np := 2 + r.Intn(3)
				type res struct {
					msgs []*pubsubpb.ReceivedMessage
					err  error
					max  int32
				}
				out := make([]res, np)
				// in a third of the cases one statement of the first puller fails with a
				// deadlock error (SQLSTATE 40P01), the one storage error a pull retries on
				// by itself: whatever the retry ends with is what the puller may hand out
				deadlocked := i%3 == 1
				if deadlocked {
					seam.C.ResetCounts()
					seam.C.SetFault(&seam.Fault{Actor: "pl0", K: 5 + r.Intn(8), Mode: seam.FaultDeadlock})
				}
				var wg sync.WaitGroup
				for p := 0; p < np; p++ {
					out[p].max = int32(1 + r.Intn(nm+2))
					wg.Add(1)
					go func(p int) {
						defer wg.Done()
						resp, err := e.Sub.Pull(e.Actor(fmt.Sprintf("pl%d", p)), &pubsubpb.PullRequest{Subscription: sub, MaxMessages: out[p].max, ReturnImmediately: true})
						out[p].err = err
						if resp != nil {
							out[p].msgs = resp.ReceivedMessages
						}
					}(p)
				}
				wg.Wait()
				if deadlocked {
					if seam.C.FaultHits() > 0 {
						deadlocks++
						if out[0].err != nil {
							// it hit a transaction the pull does not retry: an error answer is
							// a correct one, the puller simply took nothing
							out[0].err, out[0].msgs, out[0].max = nil, nil, 0
						}
					}
					seam.C.SetFault(nil)
				}
				rounds++
				seen := map[string]int{}
				capacity := 0
				for p := range out {
					if out[p].err != nil {
						col.Violation("concurrent-pull-error", fmt.Sprintf("one of %d concurrent pulls failed: %v", np, out[p].err), map[string]any{"case_seed": seed})
						continue
					}
					capacity += int(out[p].max)
					for _, m := range out[p].msgs {
						handed++
						if prev, dup := seen[m.AckId]; dup {
							col.Violation("lease-handed-out-twice", fmt.Sprintf("ack id %s (message %s) was handed to concurrent pullers %d and %d in the same round (attempts %d); boundary order: %s", m.AckId[:8], m.Message.MessageId[:8], prev, p, m.DeliveryAttempt, strings.Join(order, " ")),
								map[string]any{"case_seed": seed, "round": round, "pullers": np, "boundary_order": order})
						}
						seen[m.AckId] = p
						if want := attempts[m.AckId] + 1; int(m.DeliveryAttempt) != want {
							col.Violation("attempt-not-consecutive", fmt.Sprintf("ack id %s delivered as attempt %d, previous attempt was %d", m.AckId[:8], m.DeliveryAttempt, attempts[m.AckId]), map[string]any{"case_seed": seed, "round": round})
						}
						attempts[m.AckId] = int(m.DeliveryAttempt)
					}
				}
				// everything was due at the start of the round: together the pullers
				// must have taken min(capacity, messages) distinct deliveries ... unless a
				// puller whose limit was not reached ran before others released nothing -
				// every puller sees all still-due rows, so the union is exact
				want := nm
				if capacity < want {
					want = capacity
				}
				if len(seen) != want {
					col.Violation("concurrent-pull-count", fmt.Sprintf("%d concurrent pullers with limits summing to %d over %d due messages handed out %d distinct deliveries, expected %d; boundary order: %s", np, capacity, nm, len(seen), want, strings.Join(order, " ")),
						map[string]any{"case_seed": seed, "round": round})
				}
				omu.Lock()
				ord := strings.Join(order, " ")
				order = nil
				omu.Unlock()
				col.Case(evd.FP(ord, np), np > 1)
				// next round: let every lease lapse (default backoff saturates at 10 min)
				time.Sleep(11 * time.Minute)
			}
			seam.C.SetBoundaryDelays(nil, nil)
			seam.C.SetBoundaryObserver(nil)
			var ids []string
			for id := range attempts {
				ids = append(ids, id)
			}
			sort.Strings(ids)
		})
	}
	col.Add("ev_concurrent_pull_rounds", rounds)
	col.Add("ev_rounds_with_an_injected_deadlock_error_in_one_puller", deadlocks)
	col.Add("ev_deliveries_handed_out_concurrently", handed)
	col.Add("relevant_events", handed)
}
