package rigv

import (
	"bytes"
	"context"
	"encoding/base64"
	"encoding/json"
	"errors"
	"fmt"
	"io"
	"math/rand"
	"net/http"
	"sort"
	"strings"
	"sync"
	"testing"
	"time"

	"google.golang.org/protobuf/types/known/durationpb"

	"go.6river.tech/mmmbbb/actions"
	"go.6river.tech/mmmbbb/ent/subscription"
	"go.6river.tech/mmmbbb/grpc/pubsubpb"

	"verif/harness/evd"
	"verif/harness/ref"
	"verif/harness/rig"
	"verif/harness/seam"
)

// C19: HTTP push. The real HttpPushStreamer runs inside the bubble against a
// scripted in-memory endpoint (an http.RoundTripper).

type pushEvent struct {
	at, done time.Time
	attempt  int
	status   int // 0 = transport error
	inFlight int
}

type pushMsg struct {
	id     string
	data   []byte
	attrs  map[string]string
	key    string
	pub    Iv2
	script []int // statuses to answer with, in order (0 = transport error); afterwards 204
	slow   []bool
	events []pushEvent
	acked  bool // a success reply was sent
	seq    int  // publish order
}

type Iv2 struct{ lo, hi time.Time }

type endpoint struct {
	mu            sync.Mutex
	sub           string
	msgs          map[string]*pushMsg
	inFlight      int
	maxFlight     int
	successes     int
	fastSuccesses int
	// phaseBound, when set, is the exact window the connection has settled on
	// (computed from the replies sent so far at a quiescent point)
	phaseBound int
	viol       []string
	pushes     int
	statuses   map[int]int
	// ordered: the subscription has message ordering enabled
	ordered     bool
	orderChecks int
	restarts    int
	slowFor     time.Duration // how long a "slow" answer takes
}

func (ep *endpoint) v(sig, f string, a ...any) {
	ep.viol = append(ep.viol, sig+"|"+fmt.Sprintf(f, a...))
}

func successStatus(s int) bool {
	switch s {
	case 102, 200, 201, 202, 204:
		return true
	}
	return false
}

func (ep *endpoint) RoundTrip(req *http.Request) (*http.Response, error) {
	body, _ := io.ReadAll(req.Body)
	req.Body.Close()
	var env struct {
		Message struct {
			Attributes  map[string]string `json:"attributes"`
			Data        string            `json:"data"`
			MessageID   string            `json:"messageId"`
			OrderingKey string            `json:"orderingKey"`
			PublishTime string            `json:"publishTime"`
		} `json:"message"`
		Subscription    string `json:"subscription"`
		DeliveryAttempt int    `json:"deliveryAttempt"`
	}
	now := time.Now()
	ep.mu.Lock()
	ep.pushes++
	if req.Method != http.MethodPost {
		ep.v("envelope:method", "push used method %s", req.Method)
	}
	if ct := req.Header.Get("content-type"); !strings.HasPrefix(ct, "application/json") {
		ep.v("envelope:content-type", "push content-type %q", ct)
	}
	dec := json.NewDecoder(bytes.NewReader(body))
	if err := dec.Decode(&env); err != nil {
		ep.v("envelope:not-json", "push body is not the documented JSON envelope: %v: %s", err, body)
		ep.mu.Unlock()
		return &http.Response{StatusCode: 204, Body: io.NopCloser(strings.NewReader("")), Header: http.Header{}, Request: req}, nil
	}
	m := ep.msgs[env.Message.MessageID]
	status, slow := 204, false
	if m == nil {
		ep.v("envelope:unknown-message", "push of unknown message id %q", env.Message.MessageID)
	} else {
		data, err := base64.StdEncoding.DecodeString(env.Message.Data)
		if err != nil || !ref.JSONEqual(data, m.data) {
			ep.v("envelope:data", "message %s: data %q does not decode to the published payload %q", m.id[:8], env.Message.Data, m.data)
		}
		if !attrsEq(env.Message.Attributes, m.attrs) {
			ep.v("envelope:attributes", "message %s: attributes %v, published %v", m.id[:8], env.Message.Attributes, m.attrs)
		}
		if env.Message.OrderingKey != m.key {
			ep.v("envelope:ordering-key", "message %s: orderingKey %q, published %q", m.id[:8], env.Message.OrderingKey, m.key)
		}
		if pt, err := time.Parse(time.RFC3339Nano, env.Message.PublishTime); err != nil || pt.Before(m.pub.lo) || pt.After(m.pub.hi) {
			ep.v("envelope:publish-time", "message %s: publishTime %q is not the publish time %v..%v", m.id[:8], env.Message.PublishTime, m.pub.lo, m.pub.hi)
		}
		if env.Subscription != ep.sub {
			ep.v("envelope:subscription", "subscription %q, expected %q", env.Subscription, ep.sub)
		}
		want := len(m.events) + 1
		if env.DeliveryAttempt != want {
			ep.v("envelope:delivery-attempt", "message %s: deliveryAttempt %d, this is push number %d", m.id[:8], env.DeliveryAttempt, want)
		}
		if ep.ordered && m.key != "" {
			for _, p := range ep.msgs {
				if p.key != m.key || p.seq >= m.seq {
					continue
				}
				ep.orderChecks++
				if !p.acked {
					ep.v("ordered-push:overtook-predecessor", "message %s (key %q, published as number %d) was pushed while the earlier same-key message %s (number %d, %d pushes so far) has not been answered with a success", m.id[:8], m.key, m.seq, p.id[:8], p.seq, len(p.events))
				}
			}
		}
		if m.acked {
			ep.v("pushed-after-success", "message %s pushed again (attempt %d) after a success reply", m.id[:8], env.DeliveryAttempt)
		}
		if n := len(m.events); n > 0 {
			last := m.events[n-1]
			if last.done.IsZero() {
				ep.v("pushed-while-in-flight", "message %s pushed again while push %d is still in flight", m.id[:8], n)
			} else if !successStatus(last.status) {
				// a failed push is retried, but not before the backoff
				nominal := ref.Backoff(2*time.Second, 5*time.Second, last.attempt)
				if gap := now.Sub(last.done); gap < nominal-10*time.Millisecond {
					ep.v("retried-before-backoff", "message %s: push %d failed (status %d) at %v and was pushed again only %v later, the backoff is %v", m.id[:8], n, last.status, last.done.Sub(m.pub.lo), gap, nominal)
				}
			}
		}
		k := len(m.events)
		if k < len(m.script) {
			status, slow = m.script[k], m.slow[k]
		}
		m.events = append(m.events, pushEvent{at: now, attempt: env.DeliveryAttempt, status: status})
	}
	ep.inFlight++
	if ep.inFlight > ep.maxFlight {
		ep.maxFlight = ep.inFlight
	}
	// only a *fast* success (answered in under a second) widens the window
	bound := 1 + ep.fastSuccesses
	if bound > 1000 {
		bound = 1000
	}
	if ep.inFlight > bound {
		ep.v("window-exceeded", "%d pushes in flight although only %d fast success replies were sent so far (the window starts at 1 and grows by one per fast success)", ep.inFlight, ep.fastSuccesses)
	}
	if ep.phaseBound > 0 && ep.inFlight > ep.phaseBound {
		ep.v("window-not-narrowed", "%d pushes in flight although the failures answered before had narrowed the window to %d (it was at its widest %d)", ep.inFlight, ep.phaseBound, 1+ep.fastSuccesses)
	}
	ep.statuses[status]++
	ep.mu.Unlock()

	if slow {
		time.Sleep(ep.slowFor)
	} else {
		time.Sleep(5 * time.Millisecond)
	}

	ep.mu.Lock()
	ep.inFlight--
	if m != nil {
		ev := &m.events[len(m.events)-1]
		ev.done = time.Now()
		if successStatus(status) {
			m.acked = true
			ep.successes++
			if !slow {
				ep.fastSuccesses++
			}
		}
	}
	ep.mu.Unlock()
	if status == 0 {
		return nil, errors.New("scripted transport failure")
	}
	return &http.Response{StatusCode: status, Status: fmt.Sprint(status), Body: io.NopCloser(strings.NewReader("scripted")), Header: http.Header{}, Request: req, ProtoMajor: 1, ProtoMinor: 1}, nil
}

func attrsEq(a, b map[string]string) bool {
	if len(a) != len(b) {
		return false
	}
	for k, v := range a {
		if w, ok := b[k]; !ok || w != v {
			return false
		}
	}
	return true
}

func TestC19(t *testing.T) { pushBody(t, "C19", false) }

// TestC05push: ordered delivery also binds the push path. The same scripts run on
// a push subscription with message ordering enabled; the endpoint's ledger then
// holds every POST of a keyed message against the earlier-published messages of
// its key: each of them must have been answered with a success before. (With a
// window above one and failing pushes in the scripts, this is where a pusher
// that fetched, or kept, a successor would show.)
func TestC05push(t *testing.T) { pushBody(t, "C05", true) }

func pushBody(t *testing.T, prop string, ordered bool) {
	cfg := evd.Env()
	col := evd.New(prop, cfg)
	defer col.Flush()
	n := cfg.N(160, 5000)
	if ordered {
		n = cfg.N(96, 3000)
	}
	var pushes, failedPushes, orderChecks, fetchFaults, verySlowCases int64
	statusSeen := map[int]bool{}
	// (the last four make sure that both characters in which the standard and
	// the URL-safe base64 alphabets differ occur: a run of four '?' / '~' puts one
	// of them on a byte offset that is 2 mod 3)
	payloads := []string{`"????"`, `"~~~~"`, `{"q":"ok????","dir":"~~~~"}`, `["¿ÿ¾","ÿÿÿÿ"]`, `{}`, `{"a":1}`, `"é世界 😀"`, `[1,2.5,"x",null]`, `1e400`, `"<script>&"`, ` { "ws" : [ 1 , 2 ] } `, `"` + strings.Repeat("z", 5000) + `"`}
	for i := 0; i < n; i++ {
		seed := cfg.CaseSeed(prop+"push", i)
		if prop == "C19" {
			seed = cfg.CaseSeed("C19", i)
		}
		if !cfg.Want(i, seed) {
			continue
		}
		rig.SetWatchdogContext(fmt.Sprintf("%s push case %d", prop, i))
		rig.RunCase(t, seed, rig.Opts{}, func(e *rig.Env) {
			r := e.Rand
			topic, sub := "projects/p/topics/t", "projects/p/subscriptions/push"
			mkTopic(e, topic)
			// some grow-then-slow cases: a subscription without a retry policy
			// (the defaults: leases of about 11 s) and an endpoint that takes 15 s - the
			// pusher has to keep extending the leases of what is in flight
			// (after a few fast successes, so that the window has room for a re-fetch of
			// something whose lease ran out under a push that is still in flight)
			verySlow := !ordered && i%9 == 7 && (i/9)%4 == 3
			spec := &pubsubpb.Subscription{Name: sub, Topic: topic, PushConfig: &pubsubpb.PushConfig{PushEndpoint: "http://endpoint.invalid/push"}, EnableMessageOrdering: ordered,
				RetryPolicy: &pubsubpb.RetryPolicy{MinimumBackoff: durationpb.New(2 * time.Second), MaximumBackoff: durationpb.New(5 * time.Second)}}
			if verySlow {
				spec.RetryPolicy = nil
			}
			mkSub(e, spec)
			id := must(e.Client.Subscription.Query().Where(subscription.Name(sub)).OnlyID(e.Ctx))
			ep := &endpoint{sub: sub, msgs: map[string]*pushMsg{}, statuses: map[int]int{}, ordered: ordered, slowFor: 1500 * time.Millisecond}
			if verySlow {
				ep.slowFor = 15 * time.Second
				verySlowCases++
			}
			// script kinds
			kind := []string{"all-fast-success", "all-slow-success", "alternating", "failure-burst", "every-status", "ramp", "grow-then-fail", "grow-then-slow", "narrow-then-backlog"}[i%9]
			nm := 4 + r.Intn(12)
			if kind == "ramp" {
				nm = 60 + r.Intn(60)
			}
			grow, failing, extra := 0, 0, 0
			_ = extra
			if kind == "grow-then-fail" {
				// first grow the window with fast successes (the window is 1 + successes),
				// then let 1-3 pushes fail (each failure shrinks the window by 10, floor 1)
				// walk the combinations deterministically; the first ones make the window
				// exactly 10 x (number of simultaneous failures) when the failures arrive
				combos := [][3]int{{9, 1, 0}, {19, 2, 0}, {29, 3, 0}, {9, 1, 2}, {10, 1, 0}, {8, 1, 0}, {19, 1, 0}, {9, 2, 0}, {4, 1, 1}, {29, 2, 1}, {19, 3, 0}, {11, 1, 0}}
				c := combos[(i/9)%len(combos)]
				grow, failing, extra = c[0], c[1], c[2]
				nm = grow + failing + extra
			}
			slowN := 0
			if kind == "grow-then-slow" {
				// grow the window to 1+grow with fast successes, then answer a burst of
				// pushes slowly-but-successfully (each slow success narrows the window
				// by one, floor 1; a whole window of them completing together would take
				// it to 0 or below without the floor), then more fast ones: everything
				// must still be pushed and acknowledged
				combos := [][3]int{{1, 2, 3}, {2, 3, 4}, {2, 6, 3}, {4, 5, 5}, {4, 12, 4}, {9, 10, 6}, {9, 25, 3}, {3, 4, 0}}
				c := combos[(i/9)%len(combos)]
				grow, slowN, extra = c[0], c[1], c[2]
				if !ordered && (i/9)%4 == 3 {
					// the very slow variant (see below): fewer slow pushes than the window
					// has room for, so that a re-fetch would be possible
					grow, slowN, extra = 4+r.Intn(3), 2, 2
				}
				nm = grow + slowN + extra
			}
			backlog := 0
			if kind == "narrow-then-backlog" {
				// grow the window with fast successes, let 1-3 pushes fail (each failure
				// narrows it by 10, floor 1) and be retried successfully, then - at a
				// quiescent point, when the window is known exactly - publish a backlog
				// that is answered slowly: no more pushes than the narrowed window may be
				// in flight together
				combos := [][3]int{{9, 1, 6}, {19, 2, 8}, {29, 3, 8}, {9, 2, 6}, {14, 1, 8}, {4, 1, 5}}
				c := combos[(i/9)%len(combos)]
				grow, failing, backlog = c[0], c[1], c[2]
				nm = grow + failing + backlog
			}
			req := &pubsubpb.PublishRequest{Topic: topic}
			var ms []*pushMsg
			for k := 0; k < nm; k++ {
				m := &pushMsg{data: []byte(payloads[r.Intn(len(payloads))]), key: []string{"", "k", "ünï"}[r.Intn(3)]}
				if r.Intn(2) == 0 {
					m.attrs = map[string]string{"a": fmt.Sprint(k), "": "empty", "ünï": "çödé"}
				}
				switch kind {
				case "all-slow-success":
					m.script, m.slow = []int{[]int{200, 201, 202, 204}[r.Intn(4)]}, []bool{true}
				case "alternating":
					if k%2 == 0 {
						m.script, m.slow = []int{500}, []bool{false}
					}
				case "failure-burst":
					f := 1 + r.Intn(3)
					for j := 0; j < f; j++ {
						m.script = append(m.script, []int{0, 400, 404, 429, 500, 503}[r.Intn(6)])
						m.slow = append(m.slow, r.Intn(4) == 0)
					}
				case "grow-then-fail":
					if k >= grow && k < grow+failing {
						f := 1 + r.Intn(2)
						for j := 0; j < f; j++ {
							m.script = append(m.script, []int{0, 500, 503}[r.Intn(3)])
							m.slow = append(m.slow, false)
						}
					}
				case "narrow-then-backlog":
					switch {
					case k >= grow && k < grow+failing:
						m.script, m.slow = []int{[]int{0, 500, 503}[r.Intn(3)]}, []bool{false}
					case k >= grow+failing:
						m.script, m.slow = []int{204}, []bool{true}
					}
				case "grow-then-slow":
					if k >= grow && k < grow+slowN {
						m.script, m.slow = []int{[]int{200, 201, 202, 204}[r.Intn(4)]}, []bool{true}
						if (i/9)%2 == 0 && k%3 == 0 {
							// ... and in every other such case some of the slow answers are
							// refusals: a slow success and a failure are then answered in
							// the same instant and wait in the connection's queues together
							m.script, m.slow = []int{[]int{0, 500, 503}[r.Intn(3)], 204}, []bool{true, false}
						}
					}
				case "every-status":
					// one final status out of 100..599 per message, walking the range across cases
					st := 100 + (i*37+k*13)%500
					m.script, m.slow = []int{st}, []bool{r.Intn(5) == 0}
				}
				m.seq = len(ms)
				if ordered && r.Intn(3) > 0 {
					m.key = "k" // most messages share one key, so that chains form
				}
				ms = append(ms, m)
				req.Messages = append(req.Messages, &pubsubpb.PubsubMessage{Data: m.data, Attributes: m.attrs, OrderingKey: m.key})
			}
			client := &http.Client{Transport: ep}
			pusher := actions.NewHttpPusher(sub, id, "http://endpoint.invalid/push", client, e.Client)
			ctx, cancel := context.WithCancel(e.Actor("pusher"))
			// schedule noise: each of the pusher's transactions (fetch, ack / nack,
			// lease extension, refresh) may start a little after the goroutine that
			// runs it decided what to write
			// (not in the script that checks the exact window at quiescent points: a
			// fetch whose limit was computed before a failure narrowed the window, and
			// which starts late, legitimately brings one push too many)
			if i%2 == 1 && kind != "narrow-then-backlog" {
				dr := &lockedRand{r: rand.New(rand.NewSource(seed ^ 0x19))}
				seam.C.SetBoundaryDelays(func(actor string) time.Duration {
					if actor == "pusher" {
						return time.Duration(dr.Intn(60)) * time.Millisecond
					}
					return 0
				}, nil)
				defer seam.C.SetBoundaryDelays(nil, nil)
			}
			done := make(chan error, 1)
			// a pusher that gives up with an error is replaced, as the push supervisor
			// (services/http-push.go) does
			go func() {
				p := pusher
				for {
					err := p.Go(ctx)
					if err == nil || ctx.Err() != nil {
						done <- err
						return
					}
					ep.mu.Lock()
					ep.restarts++
					ep.mu.Unlock()
					p = actions.NewHttpPusher(sub, id, "http://endpoint.invalid/push", client, e.Client)
				}
			}()
			lo := time.Now()
			var publish func(from, to int)
			publish = func(from, to int) {
				if ordered && to-from > 1 {
					// the virtual clock stands still inside a call, and the order of
					// same-key messages is recorded by their publish instants: one call
					// per message, a millisecond apart (a real clock never stands still
					// between two messages of a batch)
					for k := from; k < to; k++ {
						publish(k, k+1)
						time.Sleep(time.Millisecond)
					}
					return
				}
				part := &pubsubpb.PublishRequest{Topic: topic, Messages: req.Messages[from:to]}
				plo := time.Now()
				ep.mu.Lock() // ids must be known before the first push arrives
				resp := must(e.Pub.Publish(e.Ctx, part))
				phi := time.Now()
				for k, mid := range resp.MessageIds {
					ms[from+k].id, ms[from+k].pub = mid, Iv2{plo, phi}
					ep.msgs[mid] = ms[from+k]
				}
				ep.mu.Unlock()
			}
			if grow > 0 {
				publish(0, grow)
				for w := 0; w < 600; w++ {
					time.Sleep(100 * time.Millisecond)
					rig.Quiesce()
					ep.mu.Lock()
					n := ep.successes
					ep.mu.Unlock()
					if n >= grow {
						break
					}
				}
				if backlog > 0 {
					publish(grow, grow+failing)
					for w := 0; w < 600; w++ {
						time.Sleep(100 * time.Millisecond)
						rig.Quiesce()
						ep.mu.Lock()
						all := true
						for _, m := range ms[grow : grow+failing] {
							if !m.acked {
								all = false
							}
						}
						ep.mu.Unlock()
						if all {
							break
						}
					}
					time.Sleep(200 * time.Millisecond)
					rig.Quiesce()
					wexp := 1 + grow - 10*failing
					if wexp < 1 {
						wexp = 1
					}
					wexp += failing // the successful retries
					ep.mu.Lock()
					ep.phaseBound = wexp
					ep.mu.Unlock()
					publish(grow+failing, nm)
				} else {
					// everything so far was answered and acknowledged, nothing is in
					// flight: in half of these cases the fetch for what is published now
					// runs into a storage error at its k-th statement (BEGIN .. COMMIT).
					// The pusher gives up and is replaced; what the endpoint then sees
					// must still be numbered 1, 2, ... per message and never overlap
					faulted := i%2 == 0 && !verySlow
					if faulted {
						seam.C.ResetCounts()
						f := &seam.Fault{Actor: "pusher", K: 1 + r.Intn(8), Mode: seam.FaultError}
						if r.Intn(2) == 0 {
							// ... or exactly at the COMMIT of the pusher's next transaction
							f.K, f.Kind = 1, seam.KCommit
						}
						seam.C.SetFault(f)
					}
					publish(grow, nm)
					if faulted {
						time.Sleep(300 * time.Millisecond)
						rig.Quiesce()
						if seam.C.FaultHits() > 0 {
							fetchFaults++
						}
						seam.C.SetFault(nil)
					}
				}
			} else {
				publish(0, nm)
			}
			// let virtual time pass until everything was answered with success, at most 10 minutes
			start := time.Now()
			for time.Since(start) < 10*time.Minute {
				time.Sleep(500 * time.Millisecond)
				rig.Quiesce()
				ep.mu.Lock()
				all := true
				for _, m := range ms {
					if !m.acked {
						all = false
					}
				}
				ep.mu.Unlock()
				if all {
					break
				}
			}
			// and some more, to catch pushes that must not happen
			time.Sleep(30 * time.Second)
			rig.Quiesce()
			cancel()
			<-done
			rig.Quiesce()
			ep.mu.Lock()
			defer ep.mu.Unlock()
			for _, m := range ms {
				switch {
				case len(m.events) == 0:
					ep.v("never-pushed", "message %s was never pushed", m.id[:8])
				case !m.acked:
					last := m.events[len(m.events)-1]
					ep.v("not-retried", "message %s: push %d ended with status %d at +%v and it was not pushed again within 10 virtual minutes", m.id[:8], len(m.events), last.status, last.done.Sub(lo))
				}
				for _, ev := range m.events {
					statusSeen[ev.status] = true
					if !successStatus(ev.status) {
						failedPushes++
					}
				}
			}
			// delivery rows: success => completed, exactly once
			d := must(rig.TakeDump(e.RawDB()))
			completed := 0
			for _, row := range d["deliveries"] {
				if row["completed_at"] != "NULL" {
					completed++
				}
			}
			acked := 0
			for _, m := range ms {
				if m.acked {
					acked++
				}
			}
			if completed != acked {
				ep.v("ack-mismatch", "%d messages got a success reply but %d deliveries are completed", acked, completed)
			}
			pushes += int64(ep.pushes)
			orderChecks += int64(ep.orderChecks)
			seenSig := map[string]bool{}
			for _, v := range ep.viol {
				parts := strings.SplitN(v, "|", 2)
				if seenSig[parts[0]] {
					continue
				}
				seenSig[parts[0]] = true
				owner := "C19"
				if strings.HasPrefix(parts[0], "ordered-push:") {
					owner = "C05"
				}
				col.ViolationFor(owner, parts[0], fmt.Sprintf("[%s, %d messages] %s", kind, nm, parts[1]), map[string]any{"case_seed": seed, "script": kind, "messages": nm, "ordered": ordered})
			}
			col.Max("max_in_flight_seen", int64(ep.maxFlight))
			var sts []int
			for s := range ep.statuses {
				sts = append(sts, s)
			}
			sort.Ints(sts)
			col.Case(evd.FP(kind, nm, sts, ep.pushes), ep.pushes > nm || kind == "ramp" || kind == "all-slow-success" || kind == "grow-then-slow" || kind == "narrow-then-backlog")
			if i < 3 {
				col.Sample(map[string]any{"script": kind, "messages": nm, "pushes": ep.pushes, "max_in_flight": ep.maxFlight, "final_statuses": sts})
			}
		})
	}
	col.Add("ev_pushes_observed", pushes)
	col.Add("ev_cases_with_default_retry_policy_and_15s_answers", verySlowCases)
	col.Add("ev_storage_errors_injected_into_a_fetch_of_the_pusher", fetchFaults)
	col.Add("ev_failed_pushes_observed", failedPushes)
	col.Add("ev_distinct_final_statuses_this_shard", int64(len(statusSeen)))
	if ordered {
		col.Add("ev_pushes_held_against_an_earlier_same_key_message", orderChecks)
		col.Add("relevant_events", orderChecks)
		return
	}
	col.Add("relevant_events", pushes)
}
