package rigv

import (
	"fmt"
	"math/rand"
	"testing"
	"time"

	"google.golang.org/grpc/codes"
	"google.golang.org/grpc/status"
	"google.golang.org/protobuf/types/known/fieldmaskpb"

	"go.6river.tech/mmmbbb/filter"
	"go.6river.tech/mmmbbb/grpc/pubsubpb"

	"verif/harness/evd"
	"verif/harness/ref"
	"verif/harness/rig"
)

var e2eNames = []string{"a", "b", "x y", "", "é", "not", "Or"}
// (values with runs of blanks, a tab, a no-break space: what is inside a quoted
// literal is data, however the text around it is laid out)
var e2eVals = []string{"", "a", "ab", "b", "a  b", "a\tb", "a\u00a0b", " a"}

func e2eBasic(r *rand.Rand) *ref.Node {
	n := e2eNames[r.Intn(len(e2eNames))]
	v := e2eVals[r.Intn(len(e2eVals))]
	switch r.Intn(4) {
	case 0:
		return ref.Has(n)
	case 1:
		return ref.Eq(n, v)
	case 2:
		return ref.Ne(n, v)
	}
	return ref.Prefix(n, v)
}

func e2eAST(r *rand.Rand, depth int) *ref.Node {
	if depth == 0 {
		b := e2eBasic(r)
		if r.Intn(3) == 0 {
			nn := ref.Not(b)
			nn.Dash = r.Intn(2) == 0
			return nn
		}
		return b
	}
	k := 2 + r.Intn(2)
	kids := make([]*ref.Node, k)
	for i := range kids {
		kids[i] = e2eAST(r, depth-1)
	}
	var n *ref.Node
	if r.Intn(2) == 0 {
		n = ref.And(kids...)
	} else {
		n = ref.Or(kids...)
	}
	if r.Intn(4) == 0 {
		c := *n
		c.Paren = true
		return ref.Not(&c)
	}
	return n
}

// TestC07e2e: filtered subscriptions receive exactly the messages the
// reference semantics select (publish routing uses the stored filter).
func TestC07e2e(t *testing.T) {
	cfg := evd.Env()
	col := evd.New("C07", cfg)
	defer col.Flush()
	n := cfg.N(24, 800)
	var pairs, unspec, dlPairs, updated int64
	for i := 0; i < n; i++ {
		seed := cfg.CaseSeed("C07e2e", i)
		if !cfg.Want(i, seed) {
			continue
		}
		rig.RunCase(t, seed, rig.Opts{Tick: time.Microsecond}, func(e *rig.Env) {
			r := e.Rand
			topic := "projects/p/topics/t"
			if _, err := e.Pub.CreateTopic(e.Ctx, &pubsubpb.Topic{Name: topic}); err != nil {
				t.Fatalf("create topic: %v", err)
			}
			const nsubs, nmsgs = 14, 10
			filters := make([]*ref.Node, nsubs)
			for s := 0; s < nsubs; s++ {
				filters[s] = e2eAST(r, r.Intn(3))
				_, err := e.Sub.CreateSubscription(e.Ctx, &pubsubpb.Subscription{Name: fmt.Sprintf("projects/p/subscriptions/s%d", s), Topic: topic, Filter: filters[s].String()})
				if err != nil {
					col.ViolationFor("C08", "rpc-rejects-sentence", fmt.Sprintf("CreateSubscription rejected grammar sentence %q: %v", filters[s].String(), err), map[string]any{"filter": filters[s].String()})
					filters[s] = nil
				}
			}
			attrs := make([]map[string]string, nmsgs)
			req := &pubsubpb.PublishRequest{Topic: topic}
			for m := 0; m < nmsgs; m++ {
				a := map[string]string{}
				for _, nm := range e2eNames {
					if r.Intn(2) == 0 {
						a[nm] = e2eVals[r.Intn(len(e2eVals))]
					}
				}
				// the sparse end of the domain: no attribute map at all, an empty one,
				// a single attribute (a negation is true of all of these)
				switch m {
				case 0:
					a = nil
				case 1:
					a = map[string]string{}
				case 2:
					nm := e2eNames[r.Intn(len(e2eNames))]
					a = map[string]string{nm: e2eVals[r.Intn(len(e2eVals))]}
				}
				attrs[m] = a
				req.Messages = append(req.Messages, &pubsubpb.PubsubMessage{Data: []byte(fmt.Sprintf("%d", m)), Attributes: a})
			}
			resp, err := e.Pub.Publish(e.Ctx, req)
			if err != nil {
				t.Fatalf("publish: %v", err)
			}
			idx := map[string]int{}
			for m, id := range resp.MessageIds {
				idx[id] = m
			}
			for s := 0; s < nsubs; s++ {
				if filters[s] == nil {
					continue
				}
				pr, err := e.Sub.Pull(e.Ctx, &pubsubpb.PullRequest{Subscription: fmt.Sprintf("projects/p/subscriptions/s%d", s), MaxMessages: 100, ReturnImmediately: true})
				if err != nil {
					t.Fatalf("pull: %v", err)
				}
				got := map[int]bool{}
				for _, rm := range pr.ReceivedMessages {
					got[idx[rm.Message.MessageId]] = true
				}
				for m := 0; m < nmsgs; m++ {
					want := filters[s].Eval(attrs[m])
					if want == ref.Unspec {
						unspec++
						continue
					}
					pairs++
					if got[m] != (want == ref.True) {
						col.Violation("routing:"+fmt.Sprint(want), fmt.Sprintf("subscription with filter %q: message with attributes %v delivered=%v, documented semantics say %v", filters[s].String(), attrs[m], got[m], want), map[string]any{"case_seed": seed, "filter": filters[s].String(), "attrs": attrs[m]})
					}
				}
				col.Case(evd.FP("e2e", filters[s].String(), seed), true)
			}
			// a filter can be replaced: whatever is published afterwards is routed by
			// the filter the subscription has now
			cleared := map[int]bool{}
			for s := 0; s < nsubs; s++ {
				if filters[s] == nil || r.Intn(2) == 0 {
					continue
				}
				if s%5 == 0 {
					// ... or removed: the only thing the request does is clear the field
					if _, err := e.Sub.UpdateSubscription(e.Ctx, &pubsubpb.UpdateSubscriptionRequest{Subscription: &pubsubpb.Subscription{Name: fmt.Sprintf("projects/p/subscriptions/s%d", s)}, UpdateMask: &fieldmaskpb.FieldMask{Paths: []string{"filter"}}}); err != nil {
						col.Violation("clearing-a-filter-rejected", fmt.Sprintf("UpdateSubscription(mask filter, empty filter) failed: %v", err), nil)
						continue
					}
					cleared[s] = true
					updated++
					continue
				}
				nf := e2eAST(r, r.Intn(3))
				if _, err := e.Sub.UpdateSubscription(e.Ctx, &pubsubpb.UpdateSubscriptionRequest{Subscription: &pubsubpb.Subscription{Name: fmt.Sprintf("projects/p/subscriptions/s%d", s), Filter: nf.String()}, UpdateMask: &fieldmaskpb.FieldMask{Paths: []string{"filter"}}}); err != nil {
					col.ViolationFor("C08", "rpc-update-rejects-sentence", fmt.Sprintf("UpdateSubscription rejected grammar sentence %q: %v", nf.String(), err), map[string]any{"filter": nf.String()})
					continue
				}
				filters[s] = nf
				updated++
			}
			resp3, err := e.Pub.Publish(e.Ctx, req)
			if err != nil {
				t.Fatalf("publish after updates: %v", err)
			}
			idx3 := map[string]int{}
			for m, id := range resp3.MessageIds {
				idx3[id] = m
			}
			for s := 0; s < nsubs; s++ {
				if filters[s] == nil {
					continue
				}
				pr, err := e.Sub.Pull(e.Ctx, &pubsubpb.PullRequest{Subscription: fmt.Sprintf("projects/p/subscriptions/s%d", s), MaxMessages: 100, ReturnImmediately: true})
				if err != nil {
					t.Fatalf("pull: %v", err)
				}
				got := map[int]bool{}
				for _, rm := range pr.ReceivedMessages {
					if m, ok := idx3[rm.Message.MessageId]; ok {
						got[m] = true
					}
				}
				for m := 0; m < nmsgs; m++ {
					want := filters[s].Eval(attrs[m])
					if cleared[s] {
						want = ref.True
						if !got[m] {
							col.Violation("routing-after-filter-removed", fmt.Sprintf("subscription whose filter (%q) was removed by an update: message with attributes %v was not delivered", filters[s].String(), attrs[m]), map[string]any{"case_seed": seed, "old_filter": filters[s].String(), "attrs": attrs[m]})
						}
						pairs++
						continue
					}
					if want == ref.Unspec {
						unspec++
						continue
					}
					pairs++
					if got[m] != (want == ref.True) {
						col.Violation("routing-after-filter-update:"+fmt.Sprint(want), fmt.Sprintf("subscription whose filter is now %q: message with attributes %v delivered=%v, documented semantics say %v", filters[s].String(), attrs[m], got[m], want), map[string]any{"case_seed": seed, "filter": filters[s].String(), "attrs": attrs[m]})
					}
				}
			}
			// the same semantics on the other routing path: messages forwarded to a
			// dead-letter topic are routed to its filtered subscriptions by their
			// original attributes
			dead := "projects/p/topics/dead"
			if _, err := e.Pub.CreateTopic(e.Ctx, &pubsubpb.Topic{Name: dead}); err != nil {
				t.Fatalf("create dead topic: %v", err)
			}
			const ndl = 6
			dlFilters := make([]*ref.Node, ndl)
			for s := 0; s < ndl; s++ {
				dlFilters[s] = e2eAST(r, r.Intn(3))
				if _, err := e.Sub.CreateSubscription(e.Ctx, &pubsubpb.Subscription{Name: fmt.Sprintf("projects/p/subscriptions/d%d", s), Topic: dead, Filter: dlFilters[s].String()}); err != nil {
					dlFilters[s] = nil
				}
			}
			src := "projects/p/subscriptions/src"
			if _, err := e.Sub.CreateSubscription(e.Ctx, &pubsubpb.Subscription{Name: src, Topic: topic, DeadLetterPolicy: &pubsubpb.DeadLetterPolicy{DeadLetterTopic: dead, MaxDeliveryAttempts: 1}}); err != nil {
				t.Fatalf("create src: %v", err)
			}
			resp2, err := e.Pub.Publish(e.Ctx, req)
			if err != nil {
				t.Fatalf("publish 2: %v", err)
			}
			idx2 := map[string]int{}
			for m, id := range resp2.MessageIds {
				idx2[id] = m
			}
			pr, err := e.Sub.Pull(e.Ctx, &pubsubpb.PullRequest{Subscription: src, MaxMessages: 100, ReturnImmediately: true})
			if err != nil || len(pr.ReceivedMessages) != nmsgs {
				t.Fatalf("pull src: %v (%d messages)", err, len(pr.ReceivedMessages))
			}
			var ackIDs []string
			for _, rm := range pr.ReceivedMessages {
				ackIDs = append(ackIDs, rm.AckId)
			}
			// nack: the one allowed delivery is used up, the next pull forwards them
			if _, err := e.Sub.ModifyAckDeadline(e.Ctx, &pubsubpb.ModifyAckDeadlineRequest{Subscription: src, AckIds: ackIDs, AckDeadlineSeconds: 0}); err != nil {
				t.Fatalf("nack: %v", err)
			}
			if pr, err := e.Sub.Pull(e.Ctx, &pubsubpb.PullRequest{Subscription: src, MaxMessages: 100, ReturnImmediately: true}); err != nil || len(pr.ReceivedMessages) != 0 {
				t.Fatalf("pull src after nack: %v (%d messages, expected dead-lettering)", err, len(pr.GetReceivedMessages()))
			}
			for s := 0; s < ndl; s++ {
				if dlFilters[s] == nil {
					continue
				}
				pr, err := e.Sub.Pull(e.Ctx, &pubsubpb.PullRequest{Subscription: fmt.Sprintf("projects/p/subscriptions/d%d", s), MaxMessages: 100, ReturnImmediately: true})
				if err != nil {
					t.Fatalf("pull dl: %v", err)
				}
				got := map[int]bool{}
				for _, rm := range pr.ReceivedMessages {
					got[idx2[rm.Message.MessageId]] = true
				}
				for m := 0; m < nmsgs; m++ {
					want := dlFilters[s].Eval(attrs[m])
					if want == ref.Unspec {
						unspec++
						continue
					}
					dlPairs++
					if got[m] != (want == ref.True) {
						col.Violation("routing-of-dead-letter:"+fmt.Sprint(want), fmt.Sprintf("dead-letter subscription with filter %q: forwarded message with attributes %v delivered=%v, documented semantics say %v", dlFilters[s].String(), attrs[m], got[m], want), map[string]any{"case_seed": seed, "filter": dlFilters[s].String(), "attrs": attrs[m]})
					}
				}
				col.Case(evd.FP("e2e-dl", dlFilters[s].String(), seed), true)
			}
		})
	}
	col.Add("ev_e2e_routing_pairs_compared", pairs)
	col.Add("ev_e2e_routing_pairs_unspecified", unspec)
	col.Add("ev_e2e_dead_letter_routing_pairs_compared", dlPairs)
	col.Add("ev_e2e_filters_replaced_by_update", updated)
	col.Add("relevant_events", pairs+dlPairs)
}

var rpcVocab = []ref.Tok{
	ref.Ident("attributes"), ref.Ident("hasPrefix"), ref.Ident("AND"), ref.Ident("OR"), ref.Ident("NOT"),
	ref.Ident("and"), ref.Ident("Attributes"), ref.Ident("HASPREFIX"), ref.Ident("Not"),
	ref.Ident("a"), ref.Str(""), ref.Str("a"), ref.Str("a  b"), ref.Str("\t"), ref.P(":"), ref.P("."), ref.P("="), ref.P("!="), ref.P("("), ref.P(")"), ref.P(","), ref.P("-"),
}

func unspecSeq(toks []ref.Tok) bool {
	for i := 1; i < len(toks); i++ {
		if toks[i].Kind == ref.TIdent && ref.KeywordLike(toks[i].Val) && toks[i-1].Kind == ref.TPunct && (toks[i-1].Val == ":" || toks[i-1].Val == ".") {
			return true
		}
	}
	return false
}

// TestC08rpc: CreateSubscription / UpdateSubscription accept a filter iff it is
// a sentence; a rejected filter is never stored.
func TestC08rpc(t *testing.T) {
	cfg := evd.Env()
	col := evd.New("C08", cfg)
	defer col.Flush()
	n := cfg.N(8, 200)
	var accepted, rejected, rawCompared int64
	for i := 0; i < n; i++ {
		seed := cfg.CaseSeed("C08rpc", i)
		if !cfg.Want(i, seed) {
			continue
		}
		rig.RunCase(t, seed, rig.Opts{}, func(e *rig.Env) {
			r := e.Rand
			topic := "projects/p/topics/t"
			e.Pub.CreateTopic(e.Ctx, &pubsubpb.Topic{Name: topic})
			keep := "projects/p/subscriptions/keep"
			keepFilter := `attributes:keep`
			if _, err := e.Sub.CreateSubscription(e.Ctx, &pubsubpb.Subscription{Name: keep, Topic: topic, Filter: keepFilter}); err != nil {
				t.Fatalf("create keep: %v", err)
			}
			bare := "projects/p/subscriptions/bare"
			if _, err := e.Sub.CreateSubscription(e.Ctx, &pubsubpb.Subscription{Name: bare, Topic: topic}); err != nil {
				t.Fatalf("create bare: %v", err)
			}
			for k := 0; k < 60; k++ {
				toks := e2eAST(r, r.Intn(3)).Tokens()
				// mutate about two thirds of them
				switch r.Intn(3) {
				case 0:
					p := r.Intn(len(toks))
					toks = append(append([]ref.Tok{}, toks[:p]...), toks[p+1:]...)
				case 1:
					p := r.Intn(len(toks) + 1)
					toks = append(append(append([]ref.Tok{}, toks[:p]...), rpcVocab[r.Intn(len(rpcVocab))]), toks[p:]...)
				}
				if unspecSeq(toks) || len(toks) == 0 {
					continue
				}
				text := ref.Render(toks)
				want := ref.Accepts(toks)
				name := fmt.Sprintf("projects/p/subscriptions/f%d", k)
				_, err := e.Sub.CreateSubscription(e.Ctx, &pubsubpb.Subscription{Name: name, Topic: topic, Filter: text})
				got, gerr := e.Sub.GetSubscription(e.Ctx, &pubsubpb.GetSubscriptionRequest{Subscription: name})
				switch {
				case want && err != nil:
					col.Violation("rpc-rejects-sentence", fmt.Sprintf("CreateSubscription rejected the sentence %q: %v", text, err), map[string]any{"filter": text})
				case !want && err == nil:
					col.Violation("rpc-accepts-non-sentence", fmt.Sprintf("CreateSubscription accepted %q which is not a sentence of the grammar", text), map[string]any{"filter": text})
				case err != nil && gerr == nil:
					col.Violation("rejected-filter-stored", fmt.Sprintf("CreateSubscription rejected %q (%v) but the subscription exists with filter %q", text, err, got.Filter), map[string]any{"filter": text})
				case err == nil && (gerr != nil || got.Filter != text):
					col.Violation("accepted-filter-not-stored", fmt.Sprintf("CreateSubscription accepted %q but Get returns %v / %q", text, gerr, got.GetFilter()), map[string]any{"filter": text})
				}
				if err != nil && status.Code(err) == codes.OK {
					col.Violation("rpc-error-without-status", "non-nil error with OK code", nil)
				}
				// the same string through UpdateSubscription
				_, uerr := e.Sub.UpdateSubscription(e.Ctx, &pubsubpb.UpdateSubscriptionRequest{Subscription: &pubsubpb.Subscription{Name: keep, Filter: text}, UpdateMask: &fieldmaskpb.FieldMask{Paths: []string{"filter"}}})
				kg, _ := e.Sub.GetSubscription(e.Ctx, &pubsubpb.GetSubscriptionRequest{Subscription: keep})
				switch {
				case want && uerr != nil:
					col.Violation("rpc-update-rejects-sentence", fmt.Sprintf("UpdateSubscription rejected the sentence %q: %v", text, uerr), map[string]any{"filter": text})
				case !want && uerr == nil:
					col.Violation("rpc-update-accepts-non-sentence", fmt.Sprintf("UpdateSubscription accepted %q which is not a sentence", text), map[string]any{"filter": text})
				case uerr != nil && kg.GetFilter() != keepFilter:
					col.Violation("rejected-filter-stored", fmt.Sprintf("UpdateSubscription rejected %q but the stored filter changed from %q to %q", text, keepFilter, kg.GetFilter()), map[string]any{"filter": text})
				case uerr == nil && kg.GetFilter() != text:
					col.Violation("accepted-filter-not-stored", fmt.Sprintf("UpdateSubscription accepted %q but Get returns %q", text, kg.GetFilter()), map[string]any{"filter": text})
				}
				if uerr == nil {
					keepFilter = text
				}
				// and on a subscription that has no filter at the moment (created
				// without one, or cleared by the previous round)
				_, berr := e.Sub.UpdateSubscription(e.Ctx, &pubsubpb.UpdateSubscriptionRequest{Subscription: &pubsubpb.Subscription{Name: bare, Filter: text}, UpdateMask: &fieldmaskpb.FieldMask{Paths: []string{"filter"}}})
				bg, _ := e.Sub.GetSubscription(e.Ctx, &pubsubpb.GetSubscriptionRequest{Subscription: bare})
				switch {
				case want && berr != nil:
					col.Violation("rpc-update-rejects-sentence:unfiltered", fmt.Sprintf("UpdateSubscription of an unfiltered subscription rejected the sentence %q: %v", text, berr), map[string]any{"filter": text})
				case !want && berr == nil:
					col.Violation("rpc-update-accepts-non-sentence:unfiltered", fmt.Sprintf("UpdateSubscription of an unfiltered subscription accepted %q which is not a sentence", text), map[string]any{"filter": text})
				case berr != nil && bg.GetFilter() != "":
					col.Violation("rejected-filter-stored", fmt.Sprintf("UpdateSubscription rejected %q but the unfiltered subscription now has filter %q", text, bg.GetFilter()), map[string]any{"filter": text})
				case berr == nil && bg.GetFilter() != text:
					col.Violation("accepted-filter-not-stored", fmt.Sprintf("UpdateSubscription accepted %q but Get returns %q", text, bg.GetFilter()), map[string]any{"filter": text})
				}
				if bg.GetFilter() != "" {
					// back to unfiltered for the next round
					if _, cerr := e.Sub.UpdateSubscription(e.Ctx, &pubsubpb.UpdateSubscriptionRequest{Subscription: &pubsubpb.Subscription{Name: bare}, UpdateMask: &fieldmaskpb.FieldMask{Paths: []string{"filter"}}}); cerr != nil {
						col.Violation("rpc-update-cannot-clear-filter", fmt.Sprintf("clearing the filter %q failed: %v", bg.GetFilter(), cerr), nil)
					} else if cg, _ := e.Sub.GetSubscription(e.Ctx, &pubsubpb.GetSubscriptionRequest{Subscription: bare}); cg.GetFilter() != "" {
						col.Violation("rpc-update-cannot-clear-filter", fmt.Sprintf("after clearing, Get still returns filter %q", cg.GetFilter()), nil)
					}
				}
				if want {
					accepted++
				} else {
					rejected++
				}
				col.Case(evd.FP("rpc", text), !want)
			}
			// raw strings: sentences decorated with characters that are white space to
			// some libraries but not to the filter lexer. No reference needed here: the
			// RPCs must agree with the filter parser itself on the exact string, and a
			// filter that was stored must parse
			decor := []string{"\v", "\f", "\u0085", "\u00a0", "\u2028", "\u3000", "\ufeff", "\x00", " \u00a0 ", "\t", "\n", " "}
			for k := 0; k < 40; k++ {
				base := e2eAST(r, r.Intn(2)).String()
				d := decor[r.Intn(len(decor))]
				var text string
				switch r.Intn(3) {
				case 0:
					text = d + base
				case 1:
					text = base + d
				default:
					text = d + base + d
				}
				_, perr := filter.Parser.ParseString("", text)
				parses := perr == nil
				name := fmt.Sprintf("projects/p/subscriptions/raw%d", k)
				_, cerr := e.Sub.CreateSubscription(e.Ctx, &pubsubpb.Subscription{Name: name, Topic: topic, Filter: text})
				_, uerr := e.Sub.UpdateSubscription(e.Ctx, &pubsubpb.UpdateSubscriptionRequest{Subscription: &pubsubpb.Subscription{Name: bare, Filter: text}, UpdateMask: &fieldmaskpb.FieldMask{Paths: []string{"filter"}}})
				rawCompared++
				for _, x := range []struct {
					what, sub string
					err       error
				}{{"CreateSubscription", name, cerr}, {"UpdateSubscription", bare, uerr}} {
					if (x.err == nil) != parses {
						col.Violation("rpc-disagrees-with-parser:"+x.what, fmt.Sprintf("%s answered %v for the filter %q, which the filter parser itself %s", x.what, x.err, text, map[bool]string{true: "accepts", false: "rejects: " + fmt.Sprint(perr)}[parses]), map[string]any{"filter": text})
					}
					if g, gerr := e.Sub.GetSubscription(e.Ctx, &pubsubpb.GetSubscriptionRequest{Subscription: x.sub}); gerr == nil && g.Filter != "" {
						if _, serr := filter.Parser.ParseString("", g.Filter); serr != nil {
							col.Violation("stored-filter-does-not-parse", fmt.Sprintf("after %s(%q) the subscription carries the filter %q, which does not parse: %v", x.what, text, g.Filter, serr), map[string]any{"filter": text, "stored": g.Filter})
						}
					}
				}
				// back to unfiltered
				e.Sub.UpdateSubscription(e.Ctx, &pubsubpb.UpdateSubscriptionRequest{Subscription: &pubsubpb.Subscription{Name: bare}, UpdateMask: &fieldmaskpb.FieldMask{Paths: []string{"filter"}}})
				col.Case(evd.FP("rpc-raw", text), !parses)
			}
		})
	}
	col.Add("ev_rpc_raw_strings_compared_with_the_parser", rawCompared)
	col.Add("ev_rpc_filters_accepted", accepted)
	col.Add("ev_rpc_filters_rejected", rejected)
	col.Add("relevant_events", accepted+rejected)
}
