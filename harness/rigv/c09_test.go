package rigv

import (
	"sort"
	"context"
	"errors"
	"fmt"
	"google.golang.org/grpc/codes"
	"google.golang.org/grpc/status"
	"net/http"
	"net/http/httptest"
	"strings"
	"sync"
	"testing"
	"time"

	"github.com/gin-gonic/gin"
	"github.com/google/uuid"
	"google.golang.org/protobuf/types/known/durationpb"
	"google.golang.org/protobuf/types/known/fieldmaskpb"
	"google.golang.org/protobuf/types/known/timestamppb"

	"go.6river.tech/mmmbbb/actions"
	"go.6river.tech/mmmbbb/controllers"
	"go.6river.tech/mmmbbb/grpc/pubsubpb"
	"go.6river.tech/mmmbbb/middleware"
	"go.6river.tech/mmmbbb/services"

	"verif/harness/evd"
	"verif/harness/rig"
	"verif/harness/seam"
)

// ---- prepared state ---------------------------------------------------------

type c09State struct {
	e        *rig.Env
	t0       time.Time
	variant  int
	ackS1    []string // ack ids handed out on s1 (leases running)
	ackOrd   []string // ack ids on the ordered subscription
	ackDL    []string // ack ids on s3 (attempts == max: dead-letter due once the lease lapses)
	ackedS1  []string // already acknowledged
	beforeM3 time.Time
}

const (
	c9T   = "projects/p/topics/t"
	c9TDL = "projects/p/topics/tdl"
	c9S1  = "projects/p/subscriptions/s1"
	c9S2  = "projects/p/subscriptions/s2ord"
	c9S3  = "projects/p/subscriptions/s3dl"
	c9SDL = "projects/p/subscriptions/sdl"
	c9SX  = "projects/p/subscriptions/sdel"
	c9TX  = "projects/p/topics/tdel"
	c9Sn  = "projects/p/snapshots/x"
)

func must[T any](v T, err error) T {
	if err != nil {
		panic(err)
	}
	return v
}

func pubN(e *rig.Env, topic string, n int, key string, variant int) {
	req := &pubsubpb.PublishRequest{Topic: topic}
	for i := 0; i < n; i++ {
		req.Messages = append(req.Messages, &pubsubpb.PubsubMessage{Data: []byte(fmt.Sprintf(`{"v":%d,"i":%d}`, variant, i)), Attributes: map[string]string{"a": fmt.Sprint(i % 2)}, OrderingKey: key})
	}
	must(e.Pub.Publish(e.Ctx, req))
}

func pullIDs(e *rig.Env, sub string, max int32) []string {
	r := must(e.Sub.Pull(e.Ctx, &pubsubpb.PullRequest{Subscription: sub, MaxMessages: max, ReturnImmediately: true}))
	var ids []string
	for _, m := range r.ReceivedMessages {
		ids = append(ids, m.AckId)
	}
	return ids
}

// buildC09State prepares a world in which every operation of the list has
// something to do: leased, due, acked, expired, dead-letter-due and
// soft-deleted things all exist.
func buildC09State(e *rig.Env, variant int) *c09State {
	st := &c09State{e: e, t0: time.Now(), variant: variant}
	for _, t := range []string{c9T, c9TDL, c9TX} {
		must(e.Pub.CreateTopic(e.Ctx, &pubsubpb.Topic{Name: t}))
	}
	must(e.Sub.CreateSubscription(e.Ctx, &pubsubpb.Subscription{Name: c9S1, Topic: c9T}))
	must(e.Sub.CreateSubscription(e.Ctx, &pubsubpb.Subscription{Name: c9S2, Topic: c9T, EnableMessageOrdering: true, Filter: `attributes:a`}))
	must(e.Sub.CreateSubscription(e.Ctx, &pubsubpb.Subscription{Name: c9S3, Topic: c9T, DeadLetterPolicy: &pubsubpb.DeadLetterPolicy{DeadLetterTopic: c9TDL, MaxDeliveryAttempts: 1},
		RetryPolicy: &pubsubpb.RetryPolicy{MinimumBackoff: durationpb.New(2 * time.Second)}}))
	must(e.Sub.CreateSubscription(e.Ctx, &pubsubpb.Subscription{Name: c9SDL, Topic: c9TDL}))
	must(e.Sub.CreateSubscription(e.Ctx, &pubsubpb.Subscription{Name: c9SX, Topic: c9TX, MessageRetentionDuration: durationpb.New(20 * time.Second)}))
	time.Sleep(time.Second)
	pubN(e, c9T, 5+variant, "k", variant)
	pubN(e, c9TX, 2, "", variant)
	time.Sleep(time.Second)
	// some acked, some leased on s1
	ids := pullIDs(e, c9S1, 10)
	acked, leased := ids[:1], ids[1:]
	if variant%2 == 1 && len(ids) >= 4 {
		// acknowledged out of order: a snapshot taken now carries a list of
		// acknowledged message ids next to its time threshold, and a seek to it has
		// one more statement to run
		acked = []string{ids[1], ids[3]}
		leased = append([]string{ids[0], ids[2]}, ids[4:]...)
	}
	must(e.Sub.Acknowledge(e.Ctx, &pubsubpb.AcknowledgeRequest{Subscription: c9S1, AckIds: acked}))
	st.ackedS1 = acked
	st.ackS1 = leased
	st.ackOrd = pullIDs(e, c9S2, 1)
	st.ackDL = pullIDs(e, c9S3, 10) // attempt 1 == max attempts
	must(e.Sub.CreateSnapshot(e.Ctx, &pubsubpb.CreateSnapshotRequest{Name: c9Sn, Subscription: c9S1}))
	time.Sleep(time.Second)
	st.beforeM3 = time.Now()
	time.Sleep(time.Second)
	pubN(e, c9T, 2, "k", variant+10)
	pubN(e, c9T, 1, "", variant+20)
	// soft-deleted subscription with deliveries, soft-deleted topic
	must(e.Sub.DeleteSubscription(e.Ctx, &pubsubpb.DeleteSubscriptionRequest{Subscription: c9SX}))
	must(e.Pub.DeleteTopic(e.Ctx, &pubsubpb.DeleteTopicRequest{Topic: c9TX}))
	// let the dead-letter lease (2.2 s + jitter) lapse; s1 leases (11 s) still running
	time.Sleep(4 * time.Second)
	return st
}

// ---- operations -------------------------------------------------------------

type c09Op struct {
	name  string
	class string // unit | pull | stream
	// stride > 0: after the first ten fault positions only every stride-th is tried
	stride int
	// prep runs fault-free right after the state was built
	prep func(st *c09State)
	run  func(ctx context.Context, st *c09State) error
}

func jobOp(name string) c09Op {
	return c09Op{name: "job:" + name, class: "unit",
		prep: func(st *c09State) { time.Sleep(40 * time.Second) }, // retention of sdel (20 s) over; everything older than min age
		run: func(ctx context.Context, st *c09State) error {
			_, err := services.VerifPruneRunOnce(ctx, st.e.Client, name, actions.PruneCommonParams{MinAge: time.Second, MaxDelete: 100})
			return err
		}}
}

func uuids(ids []string) []uuid.UUID {
	var out []uuid.UUID
	for _, s := range ids {
		out = append(out, uuid.MustParse(s))
	}
	return out
}

func c09Ops() []c09Op {
	ops := []c09Op{
		{name: "publish-1", class: "unit", run: func(ctx context.Context, st *c09State) error {
			_, err := st.e.Pub.Publish(ctx, &pubsubpb.PublishRequest{Topic: c9T, Messages: []*pubsubpb.PubsubMessage{{Data: []byte(`{"x":1}`), Attributes: map[string]string{"a": "1"}, OrderingKey: "k"}}})
			return err
		}},
		{name: "publish-batch-5", class: "unit", run: func(ctx context.Context, st *c09State) error {
			req := &pubsubpb.PublishRequest{Topic: c9T}
			for i := 0; i < 5; i++ {
				req.Messages = append(req.Messages, &pubsubpb.PubsubMessage{Data: []byte(fmt.Sprintf(`{"b":%d}`, i)), Attributes: map[string]string{"a": fmt.Sprint(i)}, OrderingKey: []string{"k", "", "k2"}[i%3]})
			}
			_, err := st.e.Pub.Publish(ctx, req)
			return err
		}},
		// more messages than any internal batch size a server is likely to use (the
		// API allows 1000 per request): one request, one transaction. Fault positions
		// are sampled (every 7th after the first ten), the request has hundreds
		{name: "publish-batch-130", class: "unit", stride: 7, run: func(ctx context.Context, st *c09State) error {
			req := &pubsubpb.PublishRequest{Topic: c9T}
			for i := 0; i < 130; i++ {
				req.Messages = append(req.Messages, &pubsubpb.PubsubMessage{Data: []byte(fmt.Sprintf(`{"big":%d}`, i)), Attributes: map[string]string{"a": fmt.Sprint(i % 3)}})
			}
			_, err := st.e.Pub.Publish(ctx, req)
			return err
		}},
		{name: "create-topic", class: "unit", run: func(ctx context.Context, st *c09State) error {
			_, err := st.e.Pub.CreateTopic(ctx, &pubsubpb.Topic{Name: "projects/p/topics/new", Labels: map[string]string{"l": "1"}})
			return err
		}},
		{name: "update-topic", class: "unit", run: func(ctx context.Context, st *c09State) error {
			_, err := st.e.Pub.UpdateTopic(ctx, &pubsubpb.UpdateTopicRequest{Topic: &pubsubpb.Topic{Name: c9T, Labels: map[string]string{"l": "2"}}, UpdateMask: &fieldmaskpb.FieldMask{Paths: []string{"labels"}}})
			return err
		}},
		{name: "delete-topic", class: "unit", run: func(ctx context.Context, st *c09State) error {
			_, err := st.e.Pub.DeleteTopic(ctx, &pubsubpb.DeleteTopicRequest{Topic: c9T})
			return err
		}},
		{name: "create-subscription", class: "unit", run: func(ctx context.Context, st *c09State) error {
			_, err := st.e.Sub.CreateSubscription(ctx, &pubsubpb.Subscription{Name: "projects/p/subscriptions/new", Topic: c9T, Filter: `attributes:a`,
				DeadLetterPolicy: &pubsubpb.DeadLetterPolicy{DeadLetterTopic: c9TDL, MaxDeliveryAttempts: 3}})
			return err
		}},
		{name: "update-subscription", class: "unit", run: func(ctx context.Context, st *c09State) error {
			_, err := st.e.Sub.UpdateSubscription(ctx, &pubsubpb.UpdateSubscriptionRequest{Subscription: &pubsubpb.Subscription{Name: c9S1, Labels: map[string]string{"x": "y"}, MessageRetentionDuration: durationpb.New(time.Hour)},
				UpdateMask: &fieldmaskpb.FieldMask{Paths: []string{"labels", "message_retention_duration"}}})
			return err
		}},
		{name: "update-subscription-policies", class: "unit", run: func(ctx context.Context, st *c09State) error {
			// the mask paths that look other rows up (dead-letter topic) or feed background services (push endpoint)
			_, err := st.e.Sub.UpdateSubscription(ctx, &pubsubpb.UpdateSubscriptionRequest{Subscription: &pubsubpb.Subscription{Name: c9S1, Filter: `attributes:a`, EnableMessageOrdering: true,
				DeadLetterPolicy: &pubsubpb.DeadLetterPolicy{DeadLetterTopic: c9TDL, MaxDeliveryAttempts: 7},
				RetryPolicy:      &pubsubpb.RetryPolicy{MinimumBackoff: durationpb.New(3 * time.Second), MaximumBackoff: durationpb.New(30 * time.Second)},
				ExpirationPolicy: &pubsubpb.ExpirationPolicy{Ttl: durationpb.New(48 * time.Hour)},
				PushConfig:       &pubsubpb.PushConfig{PushEndpoint: "http://example.invalid/p2"}},
				UpdateMask: &fieldmaskpb.FieldMask{Paths: []string{"filter", "enable_message_ordering", "dead_letter_policy", "retry_policy", "expiration_policy", "push_config"}}})
			return err
		}},
		{name: "update-subscription-clear-policies", class: "unit", run: func(ctx context.Context, st *c09State) error {
			_, err := st.e.Sub.UpdateSubscription(ctx, &pubsubpb.UpdateSubscriptionRequest{Subscription: &pubsubpb.Subscription{Name: c9S3},
				UpdateMask: &fieldmaskpb.FieldMask{Paths: []string{"dead_letter_policy", "retry_policy", "labels"}}})
			return err
		}},
		{name: "create-push-subscription", class: "unit", run: func(ctx context.Context, st *c09State) error {
			_, err := st.e.Sub.CreateSubscription(ctx, &pubsubpb.Subscription{Name: "projects/p/subscriptions/newpush", Topic: c9T, EnableMessageOrdering: true,
				PushConfig: &pubsubpb.PushConfig{PushEndpoint: "http://example.invalid/p"}, Labels: map[string]string{"k": "v"},
				RetryPolicy: &pubsubpb.RetryPolicy{MinimumBackoff: durationpb.New(time.Second)}, MessageRetentionDuration: durationpb.New(time.Hour)})
			return err
		}},
		{name: "delete-subscription", class: "unit", run: func(ctx context.Context, st *c09State) error {
			_, err := st.e.Sub.DeleteSubscription(ctx, &pubsubpb.DeleteSubscriptionRequest{Subscription: c9S1})
			return err
		}},
		{name: "modify-push-config", class: "unit", run: func(ctx context.Context, st *c09State) error {
			_, err := st.e.Sub.ModifyPushConfig(ctx, &pubsubpb.ModifyPushConfigRequest{Subscription: c9S2, PushConfig: &pubsubpb.PushConfig{PushEndpoint: "http://example.invalid/push"}})
			return err
		}},
		{name: "acknowledge", class: "unit", run: func(ctx context.Context, st *c09State) error {
			_, err := st.e.Sub.Acknowledge(ctx, &pubsubpb.AcknowledgeRequest{Subscription: c9S1, AckIds: append(append([]string{}, st.ackS1...), st.ackedS1...)})
			return err
		}},
		{name: "acknowledge-ordered-predecessor", class: "unit", run: func(ctx context.Context, st *c09State) error {
			_, err := st.e.Sub.Acknowledge(ctx, &pubsubpb.AcknowledgeRequest{Subscription: c9S2, AckIds: st.ackOrd})
			return err
		}},
		{name: "modack-positive", class: "unit", run: func(ctx context.Context, st *c09State) error {
			_, err := st.e.Sub.ModifyAckDeadline(ctx, &pubsubpb.ModifyAckDeadlineRequest{Subscription: c9S1, AckIds: st.ackS1, AckDeadlineSeconds: 300})
			return err
		}},
		{name: "modack-zero-two-subscriptions", class: "unit", run: func(ctx context.Context, st *c09State) error {
			_, err := st.e.Sub.ModifyAckDeadline(ctx, &pubsubpb.ModifyAckDeadlineRequest{Subscription: c9S1, AckIds: append(append([]string{}, st.ackS1...), st.ackOrd...), AckDeadlineSeconds: 0})
			return err
		}},
		{name: "nack-action-backoff-and-deadletter", class: "unit", run: func(ctx context.Context, st *c09State) error {
			a := actions.NewNackDeliveries(uuids(append(append([]string{}, st.ackS1...), st.ackDL...))...)
			return st.e.Client.DoCtxTx(ctx, nil, a.Execute)
		}},
		{name: "pull-plain", class: "pull", run: func(ctx context.Context, st *c09State) error {
			_, err := st.e.Sub.Pull(ctx, &pubsubpb.PullRequest{Subscription: c9S1, MaxMessages: 10, ReturnImmediately: true})
			return err
		}},
		{name: "pull-ordered", class: "pull", run: func(ctx context.Context, st *c09State) error {
			_, err := st.e.Sub.Pull(ctx, &pubsubpb.PullRequest{Subscription: c9S2, MaxMessages: 10, ReturnImmediately: true})
			return err
		}},
		{name: "pull-with-deadletter-due", class: "pull", run: func(ctx context.Context, st *c09State) error {
			_, err := st.e.Sub.Pull(ctx, &pubsubpb.PullRequest{Subscription: c9S3, MaxMessages: 10, ReturnImmediately: true})
			return err
		}},
		{name: "pull-empty-timeout", class: "pull", run: func(ctx context.Context, st *c09State) error {
			_, err := st.e.Sub.Pull(ctx, &pubsubpb.PullRequest{Subscription: c9SDL, MaxMessages: 10, ReturnImmediately: true})
			return err
		}},
		{name: "stream-ack-and-nack", class: "stream", run: func(ctx context.Context, st *c09State) error {
			fs := rig.NewFakeStream(ctx)
			done := make(chan error, 1)
			go func() { done <- st.e.Sub.StreamingPull(fs) }()
			req := &pubsubpb.StreamingPullRequest{Subscription: c9S1, StreamAckDeadlineSeconds: 10, MaxOutstandingMessages: 100, AckIds: st.ackS1[:2]}
			for _, id := range st.ackS1[2:] {
				req.ModifyDeadlineAckIds = append(req.ModifyDeadlineAckIds, id)
				req.ModifyDeadlineSeconds = append(req.ModifyDeadlineSeconds, 0)
			}
			fs.Push(req)
			rig.Quiesce()
			fs.Cancel()
			err := <-done
			rig.Quiesce()
			if err != nil && (strings.Contains(err.Error(), "context canceled") || strings.Contains(err.Error(), "Canceled")) && ctx.Err() == nil {
				return nil // ended by our own Cancel
			}
			return err
		}},
		{name: "streamer-ack-and-nack-one-request", class: "streamer", run: func(ctx context.Context, st *c09State) error {
			// the message streamer fed the way the HTTP push connection feeds it: one
			// request carrying both acks and (real) nacks - applied in ONE transaction
			id := uuid.MustParse(must(rig.TakeDump(st.e.RawDB()))["subscriptions"][0]["id"])
			for _, r := range must(rig.TakeDump(st.e.RawDB()))["subscriptions"] {
				if r["name"] == c9S1 {
					id = uuid.MustParse(r["id"])
				}
			}
			conn := &scriptedConn{first: &actions.MessageStreamRequest{
				FlowControl: &actions.FlowControl{MaxMessages: 100, MaxBytes: 1 << 20},
				Ack:         uuids(st.ackS1[:2]), Nack: uuids(st.ackS1[2:])}, ctx: ctx, sent: make(chan struct{}, 1000)}
			ms := &actions.MessageStreamer{Client: st.e.Client, SubscriptionID: &id, SubscriptionName: c9S1, AutomaticNack: true}
			sctx, cancel := context.WithCancel(ctx)
			done := make(chan error, 1)
			go func() { done <- ms.Go(sctx, conn) }()
			rig.Quiesce()
			cancel()
			err := <-done
			rig.Quiesce()
			if err != nil && (errors.Is(err, context.Canceled) || strings.Contains(err.Error(), "context canceled")) && ctx.Err() == nil {
				return nil
			}
			return err
		}},
		{name: "seek-to-time", class: "unit", run: func(ctx context.Context, st *c09State) error {
			_, err := st.e.Sub.Seek(ctx, &pubsubpb.SeekRequest{Subscription: c9S1, Target: &pubsubpb.SeekRequest_Time{Time: timestamppb.New(st.beforeM3)}})
			return err
		}},
		{name: "seek-to-time-rewind-all", class: "unit", run: func(ctx context.Context, st *c09State) error {
			_, err := st.e.Sub.Seek(ctx, &pubsubpb.SeekRequest{Subscription: c9S1, Target: &pubsubpb.SeekRequest_Time{Time: timestamppb.New(st.t0.Add(-time.Hour))}})
			return err
		}},
		{name: "seek-to-snapshot", class: "unit",
			prep: func(st *c09State) {
				if st.variant%2 == 1 {
					// everything outstanding again, also what the snapshot lists as
					// acknowledged: every statement of the seek has rows to change
					must(st.e.Sub.Seek(st.e.Ctx, &pubsubpb.SeekRequest{Subscription: c9S1, Target: &pubsubpb.SeekRequest_Time{Time: timestamppb.New(st.t0.Add(-time.Hour))}}))
					return
				}
				must(st.e.Sub.Acknowledge(st.e.Ctx, &pubsubpb.AcknowledgeRequest{Subscription: c9S1, AckIds: st.ackS1}))
				pullIDs(st.e, c9S1, 1)
			},
			run: func(ctx context.Context, st *c09State) error {
				_, err := st.e.Sub.Seek(ctx, &pubsubpb.SeekRequest{Subscription: c9S1, Target: &pubsubpb.SeekRequest_Snapshot{Snapshot: c9Sn}})
				return err
			}},
		{name: "create-snapshot", class: "unit", run: func(ctx context.Context, st *c09State) error {
			_, err := st.e.Sub.CreateSnapshot(ctx, &pubsubpb.CreateSnapshotRequest{Name: "projects/p/snapshots/new", Subscription: c9S1, Labels: map[string]string{"a": "b"}})
			return err
		}},
		{name: "delete-snapshot", class: "unit", run: func(ctx context.Context, st *c09State) error {
			_, err := st.e.Sub.DeleteSnapshot(ctx, &pubsubpb.DeleteSnapshotRequest{Snapshot: c9Sn})
			return err
		}},
		{name: "deadletter-sweep", class: "unit", run: func(ctx context.Context, st *c09State) error {
			a := actions.NewDeadLetterDeliveries(actions.DeadLetterDeliveriesParams{MaxDeliveries: 100})
			return st.e.Client.DoCtxTx(ctx, nil, a.Execute)
		}},
		{name: "delay-injector-put", class: "unit", run: func(ctx context.Context, st *c09State) error {
			gin.SetMode(gin.ReleaseMode)
			r := gin.New()
			r.ContextWithFallback = true // as the production router does
			r.Use(gin.CustomRecovery(func(c *gin.Context, rec any) { c.AbortWithStatus(500) }))
			r.Use(middleware.WithEntClient(st.e.Client, middleware.Key()))
			if err := (&controllers.DelayInjectorController{}).Register(r); err != nil {
				return err
			}
			req := httptest.NewRequest(http.MethodPut, "/delays/"+c9S1, strings.NewReader(`{"delay":"3s"}`)).WithContext(ctx)
			rec := httptest.NewRecorder()
			r.ServeHTTP(rec, req)
			if rec.Code != 200 {
				return fmt.Errorf("http %d", rec.Code)
			}
			return nil
		}},
	}
	for _, j := range []string{"prune-completed-deliveries", "prune-expired-deliveries", "prune-completed-messages", "prune-deleted-subscription-deliveries",
		"prune-deleted-subscriptions", "prune-deleted-topics", "delete-expired-subscriptions"} {
		ops = append(ops, jobOp(j))
	}
	return ops
}

// scriptedConn is a StreamConnection that delivers one request and then waits.
type scriptedConn struct {
	first *actions.MessageStreamRequest
	ctx   context.Context
	sent  chan struct{}
	mu    sync.Mutex
	given bool
}

func (c *scriptedConn) Close() error { return nil }
func (c *scriptedConn) Receive(ctx context.Context) (*actions.MessageStreamRequest, error) {
	c.mu.Lock()
	if !c.given {
		c.given = true
		c.mu.Unlock()
		return c.first, nil
	}
	c.mu.Unlock()
	<-ctx.Done()
	return nil, ctx.Err()
}
func (c *scriptedConn) Send(ctx context.Context, d *actions.SubscriptionMessageDelivery) error {
	return nil
}

// ---- the enumeration --------------------------------------------------------

type observers struct {
	pub      map[string]actions.PublishNotifier
	ids      map[string]uuid.UUID
	anySub   actions.AnySubModifiedNotifier
	anyTopic actions.AnyTopicModifiedNotifier
}

func watch(d rig.Dump) *observers {
	o := &observers{pub: map[string]actions.PublishNotifier{}, ids: map[string]uuid.UUID{}}
	for _, r := range d["subscriptions"] {
		id := uuid.MustParse(r["id"])
		o.ids[r["name"]+"/"+r["id"][:8]] = id
		o.pub[r["name"]+"/"+r["id"][:8]] = actions.PublishAwaiter(id)
	}
	o.anySub = actions.AnySubModifiedAwaiter()
	o.anyTopic = actions.AnyTopicModifiedAwaiter()
	return o
}

func (o *observers) closedAndCancel() []string {
	var out []string
	for k, c := range o.pub {
		select {
		case <-c:
			out = append(out, "publish-notification:"+k)
		default:
		}
		actions.CancelPublishAwaiter(o.ids[k], c)
	}
	select {
	case <-o.anySub:
		out = append(out, "subscription-modified-notification")
	default:
	}
	actions.CancelAnySubModifiedAwaiter(o.anySub)
	select {
	case <-o.anyTopic:
		out = append(out, "topic-modified-notification")
	default:
	}
	actions.CancelAnyTopicModifiedAwaiter(o.anyTopic)
	return out
}

// noteNames strips the row id from the notification keys (ids differ between runs).
func noteNames(closed []string) []string {
	var out []string
	for _, c := range closed {
		if i := strings.LastIndex(c, "/"); i > 0 && strings.HasPrefix(c, "publish-notification:") {
			c = c[:i]
		}
		out = append(out, c)
	}
	sort.Strings(out)
	return out
}

func missingNotes(want, closed []string) []string {
	have := map[string]bool{}
	for _, c := range noteNames(closed) {
		have[c] = true
	}
	var miss []string
	for _, wnt := range want {
		if !have[wnt] {
			miss = append(miss, wnt)
		}
	}
	return miss
}

func runC09Op(e *rig.Env, op c09Op, variant int) *c09State {
	st := buildC09State(e, variant)
	if op.prep != nil {
		op.prep(st)
	}
	return st
}

func TestC09(t *testing.T) {
	cfg := evd.Env()
	col := evd.New("C09", cfg)
	defer col.Flush()
	ops := c09Ops()
	variants := cfg.N(2, 24)
	modes := []seam.FaultMode{seam.FaultError, seam.FaultCancel}
	modeName := map[seam.FaultMode]string{seam.FaultError: "error", seam.FaultCancel: "cancel"}
	idx := 0
	var points, hitsTotal int64
	for oi, op := range ops {
		for v := 0; v < variants; v++ {
			for _, mode := range modes {
				idx++
				seed := cfg.CaseSeed("C09", oi*100+v)
				if !cfg.Want(idx, seed) {
					continue
				}
				// fault-free twin
				var twinAbs []string
				var twinErr error
				var twinNotes []string
				rig.RunCase(t, seed, rig.Opts{}, func(e *rig.Env) {
					st := runC09Op(e, op, v)
					obs := watch(must(rig.TakeDump(e.RawDB())))
					twinErr = op.run(e.Actor("op"), st)
					rig.Quiesce()
					twinNotes = noteNames(obs.closedAndCancel())
					twinAbs = rig.Abstract(must(rig.TakeDump(e.RawDB())))
				})
				if twinErr != nil {
					col.Inconclusive(fmt.Sprintf("operation %s fails without any fault: %v", op.name, twinErr))
					continue
				}
				rig.RunCase(t, seed, rig.Opts{Trace: true}, func(e *rig.Env) {
					st := runC09Op(e, op, v)
					dump0 := must(rig.TakeDump(e.RawDB()))
					var lateCancels []context.CancelFunc
					defer func() {
						for _, c := range lateCancels {
							c()
						}
					}()
					for k := 1; k < 1200; k++ {
						if op.stride > 0 && k > 10 && k%op.stride != 0 {
							continue
						}
						if op.stride == 0 && k >= 400 {
							break
						}
						obs := watch(dump0)
						commits := 0
						var lastCommit rig.Dump
						seam.C.SetBoundaryObserver(func(actor string, kind seam.Kind) {
							if kind == seam.KCommit && actor == "op" {
								commits++
								lastCommit = must(rig.TakeDump(e.RawDB()))
							}
						})
						ctx, cancel := context.WithCancel(e.Actor("op"))
						seam.C.ResetCounts()
						seam.C.SetFault(&seam.Fault{Actor: "op", K: k, Mode: mode, Cancel: cancel})
						err := op.run(ctx, st)
						hit := seam.C.FaultHits() > 0
						seam.C.SetFault(nil)
						seam.C.SetBoundaryObserver(nil)
						if mode == seam.FaultError && (op.class == "unit" || op.class == "pull") {
							// a request context that outlives the failed attempt (as a
							// service's or a connection's does): database/sql rolls an
							// abandoned transaction back when its context ends, which would
							// hide a transaction that the failed attempt left open
							lateCancels = append(lateCancels, cancel)
						} else {
							cancel()
						}
						rig.Quiesce()
						dump1 := must(rig.TakeDump(e.RawDB()))
						closed := obs.closedAndCancel()
						wit := func() map[string]any {
							return map[string]any{"operation": op.name, "class": op.class, "variant": v, "fault_at_statement": k, "mode": modeName[mode], "case_seed": seed,
								"error": fmt.Sprint(err), "commits_before_fault": commits, "notifications": closed, "sql_tail": seam.C.TraceTail(40)}
						}
						if op.class == "streamer" {
							// acks and nacks of one streamer request are ONE transaction
							if hit {
								points++
								hitsTotal++
								col.Case(evd.FP(op.name, v, k, mode), true)
							}
							row := func(d rig.Dump, id string) rig.Row {
								for _, r := range d["deliveries"] {
									if r["id"] == id {
										return r
									}
								}
								return rig.Row{}
							}
							ackedN, moved := 0, 0
							for _, id := range st.ackS1[:2] {
								if row(dump1, id)["completed_at"] != "NULL" {
									ackedN++
								}
							}
							for _, id := range st.ackS1[2:] {
								if row(dump1, id)["attempt_at"] != row(dump0, id)["attempt_at"] {
									moved++
								}
							}
							nn := len(st.ackS1) - 2
							all := ackedN == 2 && moved == nn
							none := ackedN == 0 && moved == 0
							if !all && !none {
								col.Violation("not-atomic:"+op.name, fmt.Sprintf("streamer request with 2 acks + %d nacks and a fault at statement %d (%s): %d acks and %d nacks applied - the request was half applied", nn, k, modeName[mode], ackedN, moved), wit())
							}
							if none && len(closed) > 0 && hit {
								col.Violation("notified-without-commit:"+op.name, fmt.Sprintf("streamer ack+nack request failed at statement %d (%s), nothing was applied, yet waiters were woken: %v", k, modeName[mode], closed), wit())
							}
							if !hit || all {
								col.Add("ev_statements_enumerated", int64(k-1))
								break
							}
							continue
						}
						if op.class == "stream" {
							// a stream has internal concurrency (its sender keeps pulling);
							// what must be atomic is the ack+nack request, which the streamer
							// applies in ONE transaction: the acked delivery is completed if
							// and only if every nacked delivery was rescheduled
							if hit {
								points++
								hitsTotal++
								col.Case(evd.FP(op.name, v, k, mode), true)
							}
							row := func(d rig.Dump, id string) rig.Row {
								for _, r := range d["deliveries"] {
									if r["id"] == id {
										return r
									}
								}
								return rig.Row{}
							}
							// the streamer applies the acks of one request in one transaction
							// and its deadline modifications in a second one: each must be
							// all-or-nothing
							ackedN := 0
							for _, id := range st.ackS1[:2] {
								if row(dump1, id)["completed_at"] != "NULL" {
									ackedN++
								}
							}
							moved, still := 0, 0
							for _, id := range st.ackS1[2:] {
								if row(dump1, id)["attempt_at"] != row(dump0, id)["attempt_at"] {
									moved++
								} else {
									still++
								}
							}
							acked := ackedN == 2 && still == 0
							if ackedN == 1 || (moved > 0 && still > 0) {
								col.Violation("not-atomic:"+op.name, fmt.Sprintf("stream request (2 acks + %d zero-deadline modifications) with a fault at statement %d (%s): %d of 2 acks applied, %d modifications applied and %d not - a transaction was half applied", moved+still, k, modeName[mode], ackedN, moved, still), wit())
							}
							if !hit || acked {
								col.Add("ev_statements_enumerated", int64(k-1))
								break
							}
							continue
						}
						if !hit {
							// the fault-free attempt after k-1 failed ones
							if err != nil {
								col.Violation("retry-fails:"+op.name, fmt.Sprintf("%s: after %d injected %s faults the fault-free retry fails: %v", op.name, k-1, modeName[mode], err), wit())
							} else if d := rig.DiffAbstract(twinAbs, rig.Abstract(dump1)); len(d) > 0 {
								col.Violation("retry-differs:"+op.name, fmt.Sprintf("%s: effect of the retry after %d injected faults differs from a fault-free run: %s", op.name, k-1, strings.Join(d, " ; ")), wit())
							} else if miss := missingNotes(twinNotes, closed); op.class == "unit" && len(miss) > 0 {
								col.Violation("committed-without-notification:"+op.name, fmt.Sprintf("%s: the retry after %d injected faults committed the same effect as a fault-free run but did not wake %v", op.name, k-1, miss), wit())
							}
							col.Add("ev_statements_enumerated", int64(k-1))
							break
						}
						points++
						hitsTotal++
						col.Case(evd.FP(op.name, v, k, mode), true)
						if err == nil {
							// reported success although a fault was injected: only fine if the
							// whole effect is there (the code retried internally or the
							// cancellation came too late to matter)
							if d := rig.DiffAbstract(twinAbs, rig.Abstract(dump1)); len(d) > 0 {
								col.Violation("success-despite-failure:"+op.name, fmt.Sprintf("%s reported success although statement %d failed (%s), and its effect is incomplete: %s", op.name, k, modeName[mode], strings.Join(d, " ; ")), wit())
							} else if miss := missingNotes(twinNotes, closed); op.class == "unit" && len(miss) > 0 {
								// R5: the whole effect is there - then so is its announcement: a
								// waiter that is not told sleeps on a change that has happened
								col.Violation("committed-without-notification:"+op.name, fmt.Sprintf("%s reported success although statement %d failed (%s); its effect is complete, but the waiters a fault-free run wakes were not all woken: missing %v", op.name, k, modeName[mode], miss), wit())
							}
							col.Add("ev_success_despite_fault", 1)
							break
						}
						// R0: the failure is reported as a failure, not as a (false) statement
						// about the data: the fault-free twin of this very call succeeds, so
						// "already exists", "not found" or "invalid argument" are untrue, and a
						// client that believes them will not retry
						switch c := status.Code(err); c {
						case codes.AlreadyExists, codes.NotFound, codes.InvalidArgument, codes.FailedPrecondition, codes.OutOfRange, codes.Unimplemented, codes.PermissionDenied, codes.Unauthenticated:
							col.Violation("fault-reported-as-domain-error:"+op.name, fmt.Sprintf("%s: a storage fault at statement %d (%s) was answered with %v (%v), which is false: the same call succeeds without the fault", op.name, k, modeName[mode], c, err), wit())
						}
						// R1: nothing of a failed transaction is visible
						base := dump0
						if commits > 0 {
							base = lastCommit
						}
						if d := rig.Diff(base, dump1); len(d) > 0 {
							col.Violation("partial-transaction:"+op.name, fmt.Sprintf("%s failed at statement %d (%s) but left changes of the failed transaction behind: %s", op.name, k, modeName[mode], strings.Join(d, " ; ")), wit())
							break
						}
						// R2: the operation as a whole is all-or-nothing
						switch op.class {
						case "unit":
							if d := rig.Diff(dump0, dump1); len(d) > 0 {
								col.Violation("not-atomic:"+op.name, fmt.Sprintf("%s reported an error (fault at statement %d, %s) but changed: %s", op.name, k, modeName[mode], strings.Join(d, " ; ")), wit())
							}
						case "pull":
							if d := rig.Diff(dump0, dump1, "subscriptions.expires_at"); len(d) > 0 {
								col.Violation("not-atomic:"+op.name, fmt.Sprintf("%s reported an error (fault at statement %d, %s) but changed more than the subscription's idle clock: %s", op.name, k, modeName[mode], strings.Join(d, " ; ")), wit())
							}
						}
						// R4: nobody is told about a change that did not commit
						if len(closed) > 0 && (op.class != "stream" || commits == 0) && len(rig.Diff(dump0, dump1, "subscriptions.expires_at")) == 0 {
							col.Violation("notified-without-commit:"+op.name, fmt.Sprintf("%s failed at statement %d (%s), nothing changed, yet waiters were woken: %v", op.name, k, modeName[mode], closed), wit())
						}
						if len(rig.Diff(dump0, dump1)) > 0 {
							// a multi-transaction operation got part of the way (allowed for
							// pull/stream): later fault positions would start from a different state
							dump0 = dump1
						}
					}
				})
			}
		}
	}
	col.Add("relevant_events", points)
	col.Add("ev_fault_points", hitsTotal)
	col.Add("ev_operations", int64(len(ops)))
	if cfg.Shard == 0 {
		col.Add("exhaustive_complete", 1)
		var names []string
		for _, o := range ops {
			names = append(names, o.name)
		}
		col.Sample(map[string]any{"operations": names, "modes": []string{"statement returns a driver error", "context cancelled at the statement"}, "positions": "every BEGIN / statement / COMMIT index k = 1..n of the operation"})
	}
}
