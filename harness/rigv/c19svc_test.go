package rigv

import (
	"context"
	"fmt"
	"io"
	"net/http"
	"strings"
	"sync"
	"testing"
	"time"

	"go.6river.tech/mmmbbb/grpc/pubsubpb"
	"go.6river.tech/mmmbbb/services"

	"verif/harness/evd"
	"verif/harness/rig"
	"verif/harness/seam"
)

// hostRecorder is http.DefaultTransport for the duration of a case: it answers
// every push with 204 and records which URL each message id was pushed to.
type hostRecorder struct {
	mu     sync.Mutex
	byURL  map[string][]string // url -> message ids (from the envelope)
	status map[string]int      // url -> status to answer
}

func (h *hostRecorder) RoundTrip(req *http.Request) (*http.Response, error) {
	body, _ := io.ReadAll(req.Body)
	req.Body.Close()
	id := ""
	if i := strings.Index(string(body), `"messageId":"`); i >= 0 {
		rest := string(body)[i+len(`"messageId":"`):]
		if j := strings.Index(rest, `"`); j >= 0 {
			id = rest[:j]
		}
	}
	h.mu.Lock()
	h.byURL[req.URL.String()] = append(h.byURL[req.URL.String()], id)
	st := h.status[req.URL.String()]
	h.mu.Unlock()
	if st == 0 {
		st = 204
	}
	time.Sleep(5 * time.Millisecond)
	return &http.Response{StatusCode: st, Body: io.NopCloser(strings.NewReader("")), Header: http.Header{}, Request: req}, nil
}

func (h *hostRecorder) pushed(url string) map[string]int {
	h.mu.Lock()
	defer h.mu.Unlock()
	out := map[string]int{}
	for _, id := range h.byURL[url] {
		out[id]++
	}
	return out
}

// TestC19svc: the supervisor (services/http-push.go) makes "push subscription =>
// messages are POSTed to its endpoint" true in the running server: pushers must
// follow creation, ModifyPushConfig (set / change / clear) and deletion.
func TestC19svc(t *testing.T) {
	cfg := evd.Env()
	col := evd.New("C19", cfg)
	defer col.Flush()
	n := cfg.N(24, 400)
	var steps, faults int64
	for i := 0; i < n; i++ {
		seed := cfg.CaseSeed("C19svc", i)
		if !cfg.Want(i, seed) {
			continue
		}
		rig.SetWatchdogContext(fmt.Sprintf("C19svc case %d", i))
		rig.RunCase(t, seed, rig.Opts{}, func(e *rig.Env) {
			r := e.Rand
			rec := &hostRecorder{byURL: map[string][]string{}, status: map[string]int{}}
			old := http.DefaultTransport
			http.DefaultTransport = rec
			defer func() { http.DefaultTransport = old }()
			ctx, cancel := context.WithCancel(e.Actor("svc"))
			var svc services.Service
			for _, s := range services.VerifNewServices(services.PruneCommonSettings{}, services.DeadLetterSettings{}) {
				if s.Name() == "http-pusher" {
					svc = s
				}
			}
			if err := svc.Initialize(ctx, e.Client); err != nil {
				t.Fatalf("init: %v", err)
			}
			ready := make(chan struct{})
			done := make(chan error, 1)
			go func() { done <- svc.Start(ctx, ready) }()
			<-ready
			topic := "projects/p/topics/t"
			mkTopic(e, topic)
			urlA, urlB := "http://a.invalid/push", "http://b.invalid/push"
			sub := "projects/p/subscriptions/push"
			cur := "" // endpoint the subscription is configured with ("" = pull subscription)
			exists := false
			var trace []string
			settle := func() {
				for k := 0; k < 6; k++ {
					time.Sleep(300 * time.Millisecond)
					rig.Quiesce()
				}
			}
			publishAndExpect := func() {
				resp := must(e.Pub.Publish(e.Ctx, &pubsubpb.PublishRequest{Topic: topic, Messages: []*pubsubpb.PubsubMessage{{Data: []byte(`{"x":1}`)}}}))
				id := resp.MessageIds[0]
				settle()
				time.Sleep(3 * time.Second)
				rig.Quiesce()
				a, b := rec.pushed(urlA)[id], rec.pushed(urlB)[id]
				trace = append(trace, fmt.Sprintf("publish (configured endpoint %q): pushed to A x%d, to B x%d", cur, a, b))
				steps++
				wantA, wantB := 0, 0
				switch cur {
				case urlA:
					wantA = 1
				case urlB:
					wantB = 1
				}
				if !exists {
					wantA, wantB = 0, 0
				}
				if a != wantA || b != wantB {
					sig := "supervisor:not-pushed"
					switch {
					case a+b > 0 && (cur == "" || !exists):
						sig = "supervisor:pushed-without-push-config"
					case a+b > 0:
						sig = "supervisor:pushed-to-wrong-endpoint"
					}
					col.Violation(sig, fmt.Sprintf("subscription configured with push endpoint %q (exists=%v): message pushed %d times to A and %d times to B; history: %s", cur, exists, a, b, strings.Join(trace, " -> ")), map[string]any{"case_seed": seed, "history": trace})
				}
				if exists && cur == "" {
					// pull subscription: drain it so that a later push config starts clean
					if pr, err := e.Sub.Pull(e.Ctx, &pubsubpb.PullRequest{Subscription: sub, MaxMessages: 100, ReturnImmediately: true}); err == nil {
						var ids []string
						for _, m := range pr.ReceivedMessages {
							ids = append(ids, m.AckId)
						}
						if len(ids) > 0 {
							e.Sub.Acknowledge(e.Ctx, &pubsubpb.AcknowledgeRequest{Subscription: sub, AckIds: ids})
						}
					}
				}
			}
			for s := 0; s < 6+r.Intn(6); s++ {
				switch a := r.Intn(8); {
				case a >= 6 && exists && cur != "":
					// a storage error inside one of the running pusher's own transactions
					// (fetch, acknowledge, refresh, lease extension): the pusher gives up
					// with that error, and the supervisor has to replace it - whatever is
					// published afterwards must be pushed like before
					k := 1 + r.Intn(12)
					seam.C.ResetCounts()
					seam.C.SetFault(&seam.Fault{Actor: "svc", K: k, Mode: seam.FaultError})
					must(e.Pub.Publish(e.Ctx, &pubsubpb.PublishRequest{Topic: topic, Messages: []*pubsubpb.PubsubMessage{{Data: []byte(`{"x":"during-fault"}`)}}}))
					settle()
					hit := seam.C.FaultHits() > 0
					seam.C.SetFault(nil)
					if hit {
						faults++
					}
					trace = append(trace, fmt.Sprintf("storage error at statement %d of the pusher (hit=%v)", k, hit))
					// the supervisor retries its own round after a second
					time.Sleep(2 * time.Second)
				case a >= 6:
					continue
				case !exists:
					cur = []string{"", urlA, urlB}[r.Intn(3)]
					req := &pubsubpb.Subscription{Name: sub, Topic: topic}
					if cur != "" {
						req.PushConfig = &pubsubpb.PushConfig{PushEndpoint: cur}
					}
					must(e.Sub.CreateSubscription(e.Ctx, req))
					exists = true
					trace = append(trace, fmt.Sprintf("create with endpoint %q", cur))
				case a == 0:
					must(e.Sub.DeleteSubscription(e.Ctx, &pubsubpb.DeleteSubscriptionRequest{Subscription: sub}))
					exists = false
					trace = append(trace, "delete")
				case a <= 3:
					nu := []string{"", urlA, urlB}[r.Intn(3)]
					must(e.Sub.ModifyPushConfig(e.Ctx, &pubsubpb.ModifyPushConfigRequest{Subscription: sub, PushConfig: &pubsubpb.PushConfig{PushEndpoint: nu}}))
					trace = append(trace, fmt.Sprintf("modify-push-config %q -> %q", cur, nu))
					cur = nu
				}
				settle()
				publishAndExpect()
			}
			col.Case(evd.FP(strings.Join(trace, "|")), len(trace) > 3)
			if i < 2 {
				col.Sample(map[string]any{"history": trace})
			}
			cancel()
			<-done
			_ = svc.Cleanup(context.Background())
			rig.Quiesce()
		})
	}
	col.Add("ev_supervisor_publish_checks", steps)
	col.Add("ev_storage_errors_injected_into_a_running_pusher", faults)
	col.Add("relevant_events", steps)
}
