package rigv

import (
	"context"
	"fmt"
	"math/rand"
	"strings"
	"sync"
	"sync/atomic"
	"testing"
	"time"

	"google.golang.org/grpc/codes"
	"google.golang.org/grpc/status"
	"google.golang.org/protobuf/encoding/protojson"
	"google.golang.org/protobuf/proto"

	"go.6river.tech/mmmbbb/actions"
	"go.6river.tech/mmmbbb/grpc/pubsubpb"
	"go.6river.tech/mmmbbb/services"

	"verif/harness/evd"
	"verif/harness/reqgen"
	"verif/harness/rig"
)

// TestC16state: the second half of C16 - a request that is answered with an
// error leaves topics, subscriptions, messages, deliveries and snapshots
// unchanged. The same generated requests as in the real-binary part are sent
// to the real handlers in-process, with no background service running (two
// standing listeners for "something was modified" stand in for the services
// that subscribe to the handlers' commit notifications).
func TestC16state(t *testing.T) {
	cfg := evd.Env()
	col := evd.New("C16", cfg)
	defer col.Flush()
	var errs, oks, panics int64
	var listenerWakes atomic.Int64
	rig.RunCase(t, cfg.CaseSeed("C16state", cfg.Shard), rig.Opts{Tick: time.Microsecond}, func(e *rig.Env) {
		api := reqgen.ServerAPI{Pub: e.Pub, Sub: e.Sub}
		w, err := reqgen.Setup(e.Ctx, api)
		if err != nil {
			t.Fatalf("setup: %v", err)
		}
		// standing listeners, as the server's own background services are (the push
		// supervisor listens for "any subscription modified", a mirror for "any topic
		// modified"): woken, they look at the database for a while and only then
		// re-arm - requests keep arriving meanwhile
		lctx, lcancel := context.WithCancel(e.Ctx)
		defer lcancel()
		lr := rand.New(rand.NewSource(cfg.Seed*17 + int64(cfg.Shard)))
		var lmu sync.Mutex
		scan := func() {
			lmu.Lock()
			d := time.Duration(lr.Intn(40)) * time.Millisecond
			lmu.Unlock()
			select {
			case <-time.After(d):
			case <-lctx.Done():
			}
		}
		go func() {
			var aw actions.AnySubModifiedNotifier
			for lctx.Err() == nil {
				actions.CancelAnySubModifiedAwaiter(aw)
				aw = actions.AnySubModifiedAwaiter()
				select {
				case <-aw:
					listenerWakes.Add(1)
					scan()
				case <-lctx.Done():
				}
			}
			actions.CancelAnySubModifiedAwaiter(aw)
		}()
		go func() {
			var aw actions.AnyTopicModifiedNotifier
			for lctx.Err() == nil {
				actions.CancelAnyTopicModifiedAwaiter(aw)
				aw = actions.AnyTopicModifiedAwaiter()
				select {
				case <-aw:
					listenerWakes.Add(1)
					scan()
				case <-lctx.Done():
				}
			}
			actions.CancelAnyTopicModifiedAwaiter(aw)
		}()
		r := rand.New(rand.NewSource(cfg.Seed*31 + int64(cfg.Shard)))
		reqs := reqgen.Unary(w)
		reqs = append(reqs, reqgen.Random(w, r, cfg.N(600, 30000))...)
		for i, rq := range reqs {
			if !cfg.Mine(i) {
				continue
			}
			before := must(rig.TakeDump(e.RawDB()))
			var callErr error
			var panicked any
			func() {
				defer func() {
					if p := recover(); p != nil {
						panicked = p
					}
				}()
				c, cancel := context.WithTimeout(e.Ctx, 30*time.Second)
				defer cancel()
				_, callErr = api.Call(c, rq.RPC, proto.Clone(rq.Msg))
			}()
			time.Sleep(10 * time.Millisecond)
			after := must(rig.TakeDump(e.RawDB()))
			js, _ := protojson.Marshal(rq.Msg)
			if len(js) > 1500 {
				js = append(js[:1500], []byte("...")...)
			}
			if panicked != nil {
				panics++
				col.Add("ev_handler_panics_in_process", 1)
			}
			if panicked == nil && callErr == nil {
				oks++
				col.Case(evd.FP(rq.Sig()), false)
				continue
			}
			errs++
			ignore := []string{}
			if rq.RPC == "Pull" {
				ignore = append(ignore, "subscriptions.expires_at")
			}
			if d := rig.Diff(before, after, ignore...); len(d) > 0 {
				what := fmt.Sprintf("error %v", status.Code(callErr))
				if panicked != nil {
					what = fmt.Sprintf("panic %v", panicked)
				}
				col.Violation("error-reply-changed-state:"+rq.Sig(), fmt.Sprintf("%s with %s = %s was answered with %s but changed: %s; request: %s", rq.RPC, rq.Field, rq.Class, what, strings.Join(d, " ; "), js),
					map[string]any{"rpc": rq.RPC, "field": rq.Field, "class": rq.Class, "request": string(js)})
			}
			if callErr != nil && status.Code(callErr) == codes.OK {
				col.Violation("error-without-status:"+rq.Sig(), fmt.Sprintf("%s returned a non-nil error that carries status OK: %v", rq.RPC, callErr), nil)
			}
			col.Case(evd.FP(rq.Sig()), true)
		}
		// requests that are fine one by one can leave the maintenance jobs something
		// they fail on (a deleted topic whose messages are not reclaimed yet makes the
		// topic job fail on the foreign key). A failed job iteration must leave the
		// server as usable as before: the next requests are answered, promptly
		if cfg.Mine(5) {
			x := "projects/p/topics/zz-maintenance"
			must(e.Pub.CreateTopic(e.Ctx, &pubsubpb.Topic{Name: x}))
			must(e.Pub.Publish(e.Ctx, &pubsubpb.PublishRequest{Topic: x, Messages: []*pubsubpb.PubsubMessage{{Data: []byte(`{"m":1}`)}}}))
			must(e.Pub.DeleteTopic(e.Ctx, &pubsubpb.DeleteTopicRequest{Topic: x}))
			time.Sleep(3 * time.Second)
			failed := 0
			for _, job := range []string{"prune-deleted-topics", "prune-deleted-subscriptions", "prune-deleted-topics"} {
				// (an age threshold of zero means "the default", an hour)
				if _, err := services.VerifPruneRunOnce(e.Actor("job"), e.Client, job, actions.PruneCommonParams{MinAge: time.Second, MaxDelete: 100}); err != nil {
					failed++
				}
			}
			col.Add("ev_failed_maintenance_iterations_before_the_probe", int64(failed))
			t0 := time.Now()
			wall := time.Now
			w0 := wall()
			c, cancel := context.WithTimeout(e.Ctx, 30*time.Second)
			_, perr := e.Pub.CreateTopic(c, &pubsubpb.Topic{Name: "projects/p/topics/zz-after-maintenance"})
			cancel()
			_ = t0
			if perr != nil {
				col.Violation("wedged-after-failed-maintenance", fmt.Sprintf("after %d failed iterations of the topic pruner (a deleted topic still has a message) CreateTopic is answered %v (%v of virtual time later)", failed, perr, wall().Sub(w0)), map[string]any{"failed_iterations": failed})
			}
			errs++
		}
	})
	col.Add("relevant_events", errs)
	col.Add("ev_error_replies_checked_for_unchanged_state", errs)
	col.Add("ev_ok_replies", oks)
	col.Add("ev_wake_ups_of_standing_modification_listeners", listenerWakes.Load())
}
