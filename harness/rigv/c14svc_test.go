package rigv

import (
	"context"
	"fmt"
	"sort"
	"strings"
	"sync"
	"testing"
	"time"

	"google.golang.org/grpc/codes"
	"google.golang.org/grpc/status"
	"google.golang.org/protobuf/types/known/durationpb"

	"go.6river.tech/mmmbbb/actions"
	"go.6river.tech/mmmbbb/grpc/pubsubpb"
	"go.6river.tech/mmmbbb/services"

	"verif/harness/evd"
	"verif/harness/rig"
	"verif/harness/seam"
)

// TestC14svc: the subscription-expiry clause of C14 through the real, long-lived
// expiry *service* (one action object for the life of the process, its own
// ticker, in virtual time) - the histories run every sweep with a freshly built
// action, which cannot see state that a long-lived instance carries from one
// sweep to the next.
//
// The service is started first; then subscriptions with different TTLs are
// created and either left idle, kept busy with empty pulls, or kept busy for a
// while and then abandoned. At every step each subscription must be alive while
// its deadline (last activity + TTL) is clearly ahead, and gone once the
// deadline plus a generous allowance for the service's schedule has passed.
func TestC14svc(t *testing.T) {
	cfg := evd.Env()
	col := evd.New("C14", cfg)
	defer col.Flush()
	n := cfg.N(48, 1200)
	var checks, expired, keptAlive, svcFaults, waitersEnded int64
	for i := 0; i < n; i++ {
		seed := cfg.CaseSeed("C14svc", i)
		if !cfg.Want(i, seed) {
			continue
		}
		rig.SetWatchdogContext(fmt.Sprintf("C14svc case %d", i))
		rig.RunCase(t, seed, rig.Opts{}, func(e *rig.Env) {
			r := e.Rand
			set := services.PruneCommonSettings{
				PruneCommonParams: actions.PruneCommonParams{MinAge: []time.Duration{0, time.Second, time.Hour}[r.Intn(3)], MaxDelete: []int{1, 2, 100}[r.Intn(3)]},
				Interval:          []time.Duration{5 * time.Second, 20 * time.Second}[r.Intn(2)],
				Fuzz:              time.Second,
				Backoff:           50 * time.Millisecond,
			}
			ctx, cancel := context.WithCancel(e.Actor("svc"))
			var svc services.Service
			for _, s := range services.VerifNewServices(set, services.DeadLetterSettings{}) {
				if s.Name() == "delete-expired-subscriptions" {
					svc = s
				}
			}
			if svc == nil {
				t.Fatalf("no expiry service among %v", services.VerifServiceNames())
			}
			if err := svc.Initialize(ctx, e.Client); err != nil {
				t.Fatalf("init: %v", err)
			}
			ready := make(chan struct{})
			done := make(chan error, 1)
			go func() { done <- svc.Start(ctx, ready) }()
			<-ready
			// the service has been running for a while before anything exists
			time.Sleep(time.Duration(1+r.Intn(120)) * time.Second)
			rig.Quiesce()

			topic := "projects/p/topics/t"
			mkTopic(e, topic)
			type sub struct {
				name     string
				ttl      time.Duration
				plan     string // idle | busy | busy-then-idle
				stopAt   time.Time
				activity time.Time // last creation / pull
				gone     bool
				goneSeen time.Time
			}
			k := 2 + r.Intn(4)
			var subs []*sub
			for j := 0; j < k; j++ {
				s := &sub{name: fmt.Sprintf("projects/p/subscriptions/s%d", j), ttl: []time.Duration{time.Minute, 2 * time.Minute, 5 * time.Minute, 10 * time.Minute}[r.Intn(4)],
					plan: []string{"idle", "busy", "busy-then-idle"}[r.Intn(3)]}
				mkSub(e, &pubsubpb.Subscription{Name: s.name, Topic: topic, ExpirationPolicy: &pubsubpb.ExpirationPolicy{Ttl: durationpb.New(s.ttl)}})
				s.activity = time.Now()
				if s.plan == "busy-then-idle" {
					s.stopAt = s.activity.Add(time.Duration(1+r.Intn(3)) * s.ttl)
				}
				subs = append(subs, s)
			}
			// one more subscription has a TTL shorter than a pull is prepared to wait
			// (59 s): a pull that waits on it restarts the clock when it starts, then the
			// TTL runs out under it and the service removes the subscription. From then
			// on it "behaves as deleted" - also for the pull that is still waiting
			type waitRes struct {
				err  error
				n    int
				at   time.Time
				done bool
			}
			var wmu sync.Mutex
			var wres waitRes
			wname := "projects/p/subscriptions/waited-on"
			withWaiter := r.Intn(2) == 0
			var wStart time.Time
			if withWaiter {
				mkSub(e, &pubsubpb.Subscription{Name: wname, Topic: topic, ExpirationPolicy: &pubsubpb.ExpirationPolicy{Ttl: durationpb.New(15 * time.Second)}})
				wStart = time.Now()
				go func() {
					resp, err := e.Sub.Pull(e.Actor("waiter"), &pubsubpb.PullRequest{Subscription: wname, MaxMessages: 1})
					wmu.Lock()
					wres = waitRes{err: err, at: time.Now(), done: true}
					if resp != nil {
						wres.n = len(resp.ReceivedMessages)
					}
					wmu.Unlock()
				}()
			}
			allowance := time.Duration(k+2)*(set.Interval+set.Fuzz) + 5*time.Second
			// in a third of the cases one statement of the service fails at some point
			// (a storage error): that sweep is lost, the service carries on
			faultAt := -1
			if r.Intn(3) == 0 {
				faultAt = r.Intn(200)
				allowance += 2 * (set.Interval + set.Fuzz)
			}
			stepNo := 0
			viol := func(sig, f string, a ...any) {
				col.Violation("service:"+sig, fmt.Sprintf("[interval=%v batch=%d, %d subscriptions] ", set.Interval, set.MaxDelete, k)+fmt.Sprintf(f, a...),
					map[string]any{"case_seed": seed, "settings": fmt.Sprintf("%+v", set)})
			}
			waiterJudged := false
			var goneSince time.Time
			step := 7 * time.Second
			horizon := time.Now().Add(35 * time.Minute)
			for time.Now().Before(horizon) {
				if stepNo == faultAt {
					seam.C.ResetCounts()
					seam.C.SetFault(&seam.Fault{Actor: "svc", K: 1 + r.Intn(6), Mode: seam.FaultError})
				}
				stepNo++
				time.Sleep(step)
				rig.Quiesce()
				now := time.Now()
				if withWaiter && !waiterJudged {
					_, gerr := e.Sub.GetSubscription(e.Ctx, &pubsubpb.GetSubscriptionRequest{Subscription: wname})
					wmu.Lock()
					wr := wres
					wmu.Unlock()
					switch {
					case wr.done && wr.err == nil && wr.at.Sub(wStart) > 50*time.Second:
						// it waited its full minute: by then the subscription had been gone for a
						// long time (TTL 15 s, sweeps every 5-20 s), and nobody told it
						viol("waiting-pull-outlived-its-subscription", "a pull that was waiting on %s (TTL 15 s) when the expiry service removed it returned OK with %d message(s) %v after it started, instead of ending with NotFound", wname, wr.n, wr.at.Sub(wStart))
						waiterJudged = true
					case wr.done:
						waiterJudged = true
						if status.Code(wr.err) == codes.NotFound {
							waitersEnded++
						}
					case status.Code(gerr) == codes.NotFound && goneSince.IsZero():
						goneSince = now
					case !goneSince.IsZero() && now.Sub(goneSince) > 20*time.Second:
						viol("waiting-pull-outlived-its-subscription", "%s has been gone for %v and the pull that was waiting on it is still waiting", wname, now.Sub(goneSince))
						waiterJudged = true
					}
				}
				for _, s := range subs {
					if s.gone {
						continue
					}
					busy := s.plan == "busy" || (s.plan == "busy-then-idle" && now.Before(s.stopAt))
					deadline := s.activity.Add(s.ttl)
					if busy && now.Sub(s.activity) >= s.ttl/3 && now.Before(deadline.Add(-time.Second)) {
						// an empty pull restarts the clock
						_, err := e.Sub.Pull(e.Ctx, &pubsubpb.PullRequest{Subscription: s.name, MaxMessages: 5, ReturnImmediately: true})
						if err != nil {
							viol("expired-too-early", "pull on %s (TTL %v, last activity %v ago) failed: %v", s.name, s.ttl, now.Sub(s.activity), err)
							s.gone = true
							continue
						}
						s.activity = time.Now()
						deadline = s.activity.Add(s.ttl)
						keptAlive++
					}
					_, err := e.Sub.GetSubscription(e.Ctx, &pubsubpb.GetSubscriptionRequest{Subscription: s.name})
					alive := err == nil
					if err != nil && status.Code(err) != codes.NotFound {
						viol("get-error", "GetSubscription(%s): %v", s.name, err)
					}
					checks++
					switch {
					case !alive && now.Before(deadline.Add(-time.Second)):
						viol("expired-too-early", "%s (plan %s, TTL %v) is gone %v after its last activity", s.name, s.plan, s.ttl, now.Sub(s.activity))
						s.gone = true
					case alive && now.After(deadline.Add(allowance)):
						viol("not-expired", "%s (plan %s, TTL %v) is still there %v after its last activity, although the expiry service (interval %v) has been running all the time", s.name, s.plan, s.ttl, now.Sub(s.activity), set.Interval)
						s.gone = true // report once
					case !alive:
						s.gone = true
						s.goneSeen = now
						expired++
						// behaves as deleted: the name can be taken again
						if _, err := e.Sub.Pull(e.Ctx, &pubsubpb.PullRequest{Subscription: s.name, MaxMessages: 1, ReturnImmediately: true}); status.Code(err) != codes.NotFound {
							viol("expired-but-pullable", "%s is gone for Get but Pull answers %v", s.name, err)
						}
					}
				}
			}
			if faultAt >= 0 {
				if seam.C.FaultHits() > 0 {
					svcFaults++
				}
				seam.C.SetFault(nil)
			}
			var plan []string
			for _, s := range subs {
				plan = append(plan, fmt.Sprintf("%s/%v", s.plan, s.ttl))
			}
			sort.Strings(plan)
			col.Case(evd.FP(set.Interval, set.MaxDelete, strings.Join(plan, ",")), true)
			if i < 2 {
				col.Sample(map[string]any{"settings": fmt.Sprintf("%+v", set), "subscriptions": plan})
			}
			cancel()
			<-done
			_ = svc.Cleanup(context.Background())
			rig.Quiesce()
		})
	}
	col.Add("ev_liveness_checks", checks)
	col.Add("ev_waiting_pulls_ended_with_notfound_when_their_subscription_expired", waitersEnded)
	col.Add("ev_storage_errors_injected_into_the_service", svcFaults)
	col.Add("ev_subscriptions_expired_by_the_service", expired)
	col.Add("ev_empty_pulls_that_restarted_the_clock", keptAlive)
	col.Add("relevant_events", expired+keptAlive)
}
