package rigv

import (
	"context"
	"fmt"
	"strings"
	"sync"
	"testing"
	"time"

	"github.com/google/uuid"
	"google.golang.org/protobuf/types/known/durationpb"
	"google.golang.org/protobuf/types/known/fieldmaskpb"
	"google.golang.org/protobuf/types/known/timestamppb"

	"go.6river.tech/mmmbbb/actions"
	"go.6river.tech/mmmbbb/grpc/pubsubpb"

	"verif/harness/evd"
	"verif/harness/rig"
	"verif/harness/seam"
)

// C10: no lost wake-up. A waiter (Pull or StreamingPull) that is blocked
// because nothing is deliverable must return once a writer has committed a
// change that makes a message deliverable on its subscription - without any
// timer having to fire. The writer is placed in every gap between the waiter's
// own transaction boundaries (register / check / wait) by virtual delays that
// the SQL seam inserts before BEGIN and after COMMIT.

const c10D = 10 * time.Millisecond

type c10World struct {
	e        *rig.Env
	waitSubs []string                                  // subscriptions the waiters wait on
	writer   func(ctx context.Context) error           // the committing change
	check    func(rm []*pubsubpb.ReceivedMessage) bool // optional extra check of what the waiter got
	// pullOnly: the scenario is about unary pulls (two streams on one subscription
	// share its messages arbitrarily)
	pullOnly bool
	// late collects waiters the writer starts itself, in the middle of its steps
	late []*c10Waiter
}

type c10Scenario struct {
	name  string
	setup func(e *rig.Env, variant int) *c10World
}

func mkTopic(e *rig.Env, n string) { must(e.Pub.CreateTopic(e.Ctx, &pubsubpb.Topic{Name: n})) }
func mkSub(e *rig.Env, s *pubsubpb.Subscription) {
	must(e.Sub.CreateSubscription(e.Ctx, s))
}
func pub1(ctx context.Context, e *rig.Env, topic, key string) error {
	_, err := e.Pub.Publish(ctx, &pubsubpb.PublishRequest{Topic: topic, Messages: []*pubsubpb.PubsubMessage{{Data: []byte(`{"w":1}`), OrderingKey: key}}})
	return err
}

func c10Scenarios() []c10Scenario {
	T, T2 := "projects/p/topics/t", "projects/p/topics/t2"
	sub := func(i int) string { return fmt.Sprintf("projects/p/subscriptions/s%d", i) }
	return []c10Scenario{
		{"publish-one-subscription", func(e *rig.Env, v int) *c10World {
			mkTopic(e, T)
			mkSub(e, &pubsubpb.Subscription{Name: sub(0), Topic: T})
			return &c10World{e: e, waitSubs: []string{sub(0)}, writer: func(ctx context.Context) error { return pub1(ctx, e, T, "") }}
		}},
		{"publish-three-subscriptions", func(e *rig.Env, v int) *c10World {
			mkTopic(e, T)
			for i := 0; i < 3; i++ {
				mkSub(e, &pubsubpb.Subscription{Name: sub(i), Topic: T})
			}
			w := &c10World{e: e, writer: func(ctx context.Context) error { return pub1(ctx, e, T, "") }}
			switch v % 4 {
			case 3:
				w.waitSubs = []string{sub(0), sub(1), sub(2)}
			default:
				w.waitSubs = []string{sub(v % 3)}
			}
			return w
		}},
		{"zero-deadline-spanning-subscriptions", func(e *rig.Env, v int) *c10World {
			mkTopic(e, T)
			n := 2 + v%2
			for i := 0; i < n; i++ {
				mkSub(e, &pubsubpb.Subscription{Name: sub(i), Topic: T})
			}
			must(e.Pub.Publish(e.Ctx, &pubsubpb.PublishRequest{Topic: T, Messages: []*pubsubpb.PubsubMessage{{Data: []byte(`1`)}}}))
			var ids []string
			for i := 0; i < n; i++ {
				ids = append(ids, pullIDs(e, sub(i), 5)...)
			}
			if (v/2)%2 == 1 {
				// reverse the id order in the request
				for i, j := 0, len(ids)-1; i < j; i, j = i+1, j-1 {
					ids[i], ids[j] = ids[j], ids[i]
				}
			}
			if (v/4)%2 == 0 {
				// "fresh process": no waiter bookkeeping left from the pulls above
				actions.WakeAllInternal()
			}
			ws := []string{sub((v / 8) % n)}
			if v%5 == 4 {
				ws = []string{sub(0), sub(n - 1)}
			}
			return &c10World{e: e, waitSubs: ws, writer: func(ctx context.Context) error {
				_, err := e.Sub.ModifyAckDeadline(ctx, &pubsubpb.ModifyAckDeadlineRequest{Subscription: sub(0), AckIds: ids, AckDeadlineSeconds: 0})
				return err
			}}
		}},
		{"ack-of-ordered-predecessor", func(e *rig.Env, v int) *c10World {
			mkTopic(e, T)
			mkSub(e, &pubsubpb.Subscription{Name: sub(0), Topic: T, EnableMessageOrdering: true})
			must(e.Pub.Publish(e.Ctx, &pubsubpb.PublishRequest{Topic: T, Messages: []*pubsubpb.PubsubMessage{{Data: []byte(`1`), OrderingKey: "k"}, {Data: []byte(`2`), OrderingKey: "k"}}}))
			ids := pullIDs(e, sub(0), 5)
			if len(ids) != 1 {
				panic(fmt.Sprintf("expected only the predecessor, got %d", len(ids)))
			}
			if v%2 == 0 {
				actions.WakeAllInternal()
			}
			return &c10World{e: e, waitSubs: []string{sub(0)}, writer: func(ctx context.Context) error {
				_, err := e.Sub.Acknowledge(ctx, &pubsubpb.AcknowledgeRequest{Subscription: sub(0), AckIds: ids})
				return err
			}}
		}},
		// ack ids are delivery ids and are resolved whatever subscription the request
		// (or the stream) names: an ack that reaches the server under another
		// subscription's name takes effect like any other, so it owes the same wake-up
		{"ack-of-ordered-predecessor-under-another-subscription", func(e *rig.Env, v int) *c10World {
			mkTopic(e, T)
			mkTopic(e, T2)
			mkSub(e, &pubsubpb.Subscription{Name: sub(0), Topic: T, EnableMessageOrdering: true})
			mkSub(e, &pubsubpb.Subscription{Name: sub(1), Topic: T2})
			must(e.Pub.Publish(e.Ctx, &pubsubpb.PublishRequest{Topic: T, Messages: []*pubsubpb.PubsubMessage{{Data: []byte(`1`), OrderingKey: "k"}, {Data: []byte(`2`), OrderingKey: "k"}}}))
			ids := pullIDs(e, sub(0), 5)
			if len(ids) != 1 {
				panic(fmt.Sprintf("expected only the predecessor, got %d", len(ids)))
			}
			if (v/3)%2 == 1 {
				// the other subscription has a delivery of its own, acknowledged in the same request
				must(e.Pub.Publish(e.Ctx, &pubsubpb.PublishRequest{Topic: T2, Messages: []*pubsubpb.PubsubMessage{{Data: []byte(`3`)}}}))
				own := pullIDs(e, sub(1), 5)
				if (v/6)%2 == 0 {
					ids = append(own, ids...)
				} else {
					ids = append(ids, own...)
				}
			}
			if v%2 == 0 {
				actions.WakeAllInternal()
			}
			w := &c10World{e: e, waitSubs: []string{sub(0)}}
			if v%3 == 0 {
				w.writer = func(ctx context.Context) error {
					_, err := e.Sub.Acknowledge(ctx, &pubsubpb.AcknowledgeRequest{Subscription: sub(1), AckIds: ids})
					return err
				}
				return w
			}
			w.writer = func(ctx context.Context) error {
				// on a stream opened on the other subscription
				fs := rig.NewFakeStream(ctx)
				hdone := make(chan struct{})
				go func() { _ = e.Sub.StreamingPull(fs); close(hdone) }()
				fs.Push(&pubsubpb.StreamingPullRequest{Subscription: sub(1), StreamAckDeadlineSeconds: 10, MaxOutstandingMessages: 10})
				rig.Quiesce()
				fs.Push(&pubsubpb.StreamingPullRequest{AckIds: ids})
				// until the acknowledgement is committed (the writer's own boundary delays included)
				for j := 0; j < 8; j++ {
					rig.Quiesce()
					var open int
					if err := e.RawDB().QueryRowContext(context.Background(), `SELECT count(*) FROM deliveries WHERE completed_at IS NULL AND attempts > 0`).Scan(&open); err == nil && open == 0 {
						break
					}
					time.Sleep(c10D / 2)
				}
				fs.Cancel()
				<-hdone
				return nil
			}
			return w
		}},
		// the subscription a pull waits on is deleted and a new one is created under
		// the same name before the woken pull has looked again: the waiter belongs to
		// the old one (it ends with NotFound) - it must not go back to sleep on a
		// registration nobody will ever wake
		{"delete-and-recreate-under-the-waiter", func(e *rig.Env, v int) *c10World {
			mkTopic(e, T)
			mkSub(e, &pubsubpb.Subscription{Name: sub(0), Topic: T})
			if v%2 == 0 {
				actions.WakeAllInternal()
			}
			return &c10World{e: e, waitSubs: []string{sub(0)}, writer: func(ctx context.Context) error {
				if _, err := e.Sub.DeleteSubscription(ctx, &pubsubpb.DeleteSubscriptionRequest{Subscription: sub(0)}); err != nil {
					return err
				}
				if _, err := e.Sub.CreateSubscription(ctx, &pubsubpb.Subscription{Name: sub(0), Topic: T, EnableMessageOrdering: v%4 >= 2}); err != nil {
					return err
				}
				return pub1(ctx, e, T, "")
			}}
		}},
		// a subscription with an injected delivery delay (the /delays feature): what
		// is published while a pull waits becomes deliverable when the delay is over -
		// the waiter has to learn about it now, so that it can wake up then (and not
		// when its own minute-long wait runs out)
		{"publish-to-a-subscription-with-a-delivery-delay", func(e *rig.Env, v int) *c10World {
			mkTopic(e, T)
			mkSub(e, &pubsubpb.Subscription{Name: sub(0), Topic: T})
			d := []string{"20ms", "35ms", "50ms"}[v%3]
			if _, err := e.RawDB().ExecContext(context.Background(), `UPDATE subscriptions SET delivery_delay = ? WHERE name = ?`, d, sub(0)); err != nil {
				panic(err)
			}
			if (v/3)%2 == 0 {
				actions.WakeAllInternal()
			}
			return &c10World{e: e, waitSubs: []string{sub(0)}, writer: func(ctx context.Context) error { return pub1(ctx, e, T, "") }}
		}},
		{"deadletter-of-ordered-predecessor-by-nack", func(e *rig.Env, v int) *c10World {
			mkTopic(e, T)
			mkTopic(e, T2)
			mkSub(e, &pubsubpb.Subscription{Name: sub(0), Topic: T, EnableMessageOrdering: true, DeadLetterPolicy: &pubsubpb.DeadLetterPolicy{DeadLetterTopic: T2, MaxDeliveryAttempts: 1}})
			must(e.Pub.Publish(e.Ctx, &pubsubpb.PublishRequest{Topic: T, Messages: []*pubsubpb.PubsubMessage{{Data: []byte(`1`), OrderingKey: "k"}, {Data: []byte(`2`), OrderingKey: "k"}}}))
			ids := pullIDs(e, sub(0), 5)
			if v%2 == 0 {
				actions.WakeAllInternal()
			}
			return &c10World{e: e, waitSubs: []string{sub(0)}, writer: func(ctx context.Context) error {
				a := actions.NewNackDeliveries(uuid.MustParse(ids[0]))
				return e.Client.DoCtxTx(ctx, nil, a.Execute)
			}}
		}},
		{"deadletter-forward-into-waiters-topic", func(e *rig.Env, v int) *c10World {
			mkTopic(e, T)
			mkTopic(e, T2)
			mkSub(e, &pubsubpb.Subscription{Name: sub(0), Topic: T, DeadLetterPolicy: &pubsubpb.DeadLetterPolicy{DeadLetterTopic: T2, MaxDeliveryAttempts: 1},
				RetryPolicy: &pubsubpb.RetryPolicy{MinimumBackoff: durationpb.New(time.Second)}})
			mkSub(e, &pubsubpb.Subscription{Name: sub(1), Topic: T2})
			must(e.Pub.Publish(e.Ctx, &pubsubpb.PublishRequest{Topic: T, Messages: []*pubsubpb.PubsubMessage{{Data: []byte(`1`)}}}))
			ids := pullIDs(e, sub(0), 5)
			time.Sleep(3 * time.Second) // lease lapsed: dead-letter due
			if v%2 == 0 {
				actions.WakeAllInternal()
			}
			w := &c10World{e: e, waitSubs: []string{sub(1)}}
			switch (v / 2) % 3 {
			case 0: // seen by a pull on the source subscription
				w.writer = func(ctx context.Context) error {
					_, err := e.Sub.Pull(ctx, &pubsubpb.PullRequest{Subscription: sub(0), MaxMessages: 5, ReturnImmediately: true})
					return err
				}
			case 1: // the background sweep
				w.writer = func(ctx context.Context) error {
					a := actions.NewDeadLetterDeliveries(actions.DeadLetterDeliveriesParams{MaxDeliveries: 10})
					return e.Client.DoCtxTx(ctx, nil, a.Execute)
				}
			default: // a nack
				w.writer = func(ctx context.Context) error {
					a := actions.NewNackDeliveries(uuid.MustParse(ids[0]))
					return e.Client.DoCtxTx(ctx, nil, a.Execute)
				}
			}
			return w
		}},
		{"seek-to-time-revives", func(e *rig.Env, v int) *c10World {
			mkTopic(e, T)
			mkSub(e, &pubsubpb.Subscription{Name: sub(0), Topic: T})
			t0 := time.Now()
			time.Sleep(time.Second)
			must(e.Pub.Publish(e.Ctx, &pubsubpb.PublishRequest{Topic: T, Messages: []*pubsubpb.PubsubMessage{{Data: []byte(`1`)}}}))
			ids := pullIDs(e, sub(0), 5)
			must(e.Sub.Acknowledge(e.Ctx, &pubsubpb.AcknowledgeRequest{Subscription: sub(0), AckIds: ids}))
			if v%2 == 0 {
				actions.WakeAllInternal()
			}
			w := &c10World{e: e, waitSubs: []string{sub(0)}}
			if (v/2)%2 == 0 {
				w.writer = func(ctx context.Context) error {
					_, err := e.Sub.Seek(ctx, &pubsubpb.SeekRequest{Subscription: sub(0), Target: &pubsubpb.SeekRequest_Time{Time: timestamppb.New(t0)}})
					return err
				}
			} else {
				// snapshot taken while the message was still unacked is not available
				// here; take one now (everything acked) after a second, unacked message
				// was published, ack that one too, then seek back to the snapshot
				must(e.Pub.Publish(e.Ctx, &pubsubpb.PublishRequest{Topic: T, Messages: []*pubsubpb.PubsubMessage{{Data: []byte(`2`)}}}))
				must(e.Sub.CreateSnapshot(e.Ctx, &pubsubpb.CreateSnapshotRequest{Name: "projects/p/snapshots/x", Subscription: sub(0)}))
				ids2 := pullIDs(e, sub(0), 5)
				must(e.Sub.Acknowledge(e.Ctx, &pubsubpb.AcknowledgeRequest{Subscription: sub(0), AckIds: ids2}))
				if v%2 == 0 {
					actions.WakeAllInternal()
				}
				w.writer = func(ctx context.Context) error {
					_, err := e.Sub.Seek(ctx, &pubsubpb.SeekRequest{Subscription: sub(0), Target: &pubsubpb.SeekRequest_Snapshot{Snapshot: "projects/p/snapshots/x"}})
					return err
				}
			}
			return w
		}},
		{"seek-acks-ordered-predecessor", func(e *rig.Env, v int) *c10World {
			// a seek that only acknowledges: the leased predecessor of a blocked
			// same-key message is acked by the seek, which makes the successor
			// deliverable - nothing is revived
			mkTopic(e, T)
			mkSub(e, &pubsubpb.Subscription{Name: sub(0), Topic: T, EnableMessageOrdering: true})
			t0 := time.Now()
			time.Sleep(time.Second)
			must(e.Pub.Publish(e.Ctx, &pubsubpb.PublishRequest{Topic: T, Messages: []*pubsubpb.PubsubMessage{{Data: []byte(`1`), OrderingKey: "k"}}}))
			ids := pullIDs(e, sub(0), 5)
			must(e.Sub.Acknowledge(e.Ctx, &pubsubpb.AcknowledgeRequest{Subscription: sub(0), AckIds: ids}))
			time.Sleep(time.Second) // (virtual time only moves when told to: the snapshot is taken later than the publish)
			must(e.Sub.CreateSnapshot(e.Ctx, &pubsubpb.CreateSnapshotRequest{Name: "projects/p/snapshots/acked", Subscription: sub(0)}))
			time.Sleep(time.Second)
			// bring the first message back and lease it again
			must(e.Sub.Seek(e.Ctx, &pubsubpb.SeekRequest{Subscription: sub(0), Target: &pubsubpb.SeekRequest_Time{Time: timestamppb.New(t0)}}))
			if got := pullIDs(e, sub(0), 5); len(got) != 1 {
				panic(fmt.Sprintf("expected the revived predecessor, got %d", len(got)))
			}
			time.Sleep(time.Second)
			between := time.Now()
			time.Sleep(time.Second)
			must(e.Pub.Publish(e.Ctx, &pubsubpb.PublishRequest{Topic: T, Messages: []*pubsubpb.PubsubMessage{{Data: []byte(`2`), OrderingKey: "k"}}}))
			if got := pullIDs(e, sub(0), 5); len(got) != 0 {
				panic(fmt.Sprintf("the successor must be blocked, got %d", len(got)))
			}
			if v%2 == 0 {
				actions.WakeAllInternal()
			}
			w := &c10World{e: e, waitSubs: []string{sub(0)}}
			if (v/2)%2 == 0 {
				w.writer = func(ctx context.Context) error {
					_, err := e.Sub.Seek(ctx, &pubsubpb.SeekRequest{Subscription: sub(0), Target: &pubsubpb.SeekRequest_Snapshot{Snapshot: "projects/p/snapshots/acked"}})
					return err
				}
			} else {
				w.writer = func(ctx context.Context) error {
					_, err := e.Sub.Seek(ctx, &pubsubpb.SeekRequest{Subscription: sub(0), Target: &pubsubpb.SeekRequest_Time{Time: timestamppb.New(between)}})
					return err
				}
			}
			return w
		}},
		{"seek-acks-as-many-as-it-revives", func(e *rig.Env, v int) *c10World {
			// a seek to a time between an older, leased (unacknowledged) message and
			// a newer, acknowledged one: it acknowledges one delivery and revives one
			// (or two and two) - the net number of outstanding deliveries does not
			// change, the revived ones are deliverable at once
			mkTopic(e, T)
			mkSub(e, &pubsubpb.Subscription{Name: sub(0), Topic: T})
			n := 1 + (v/2)%2
			for j := 0; j < n; j++ {
				must(e.Pub.Publish(e.Ctx, &pubsubpb.PublishRequest{Topic: T, Messages: []*pubsubpb.PubsubMessage{{Data: []byte(`1`)}}}))
			}
			if got := pullIDs(e, sub(0), 5); len(got) != n { // leased, not acknowledged
				panic(fmt.Sprintf("expected %d leased messages, got %d", n, len(got)))
			}
			time.Sleep(time.Second)
			between := time.Now()
			time.Sleep(time.Second)
			for j := 0; j < n; j++ {
				must(e.Pub.Publish(e.Ctx, &pubsubpb.PublishRequest{Topic: T, Messages: []*pubsubpb.PubsubMessage{{Data: []byte(`2`)}}}))
			}
			ids := pullIDs(e, sub(0), 5)
			if len(ids) != n {
				panic(fmt.Sprintf("expected %d new messages, got %d", n, len(ids)))
			}
			must(e.Sub.Acknowledge(e.Ctx, &pubsubpb.AcknowledgeRequest{Subscription: sub(0), AckIds: ids}))
			if v%2 == 0 {
				actions.WakeAllInternal()
			}
			w := &c10World{e: e, waitSubs: []string{sub(0)}}
			w.writer = func(ctx context.Context) error {
				_, err := e.Sub.Seek(ctx, &pubsubpb.SeekRequest{Subscription: sub(0), Target: &pubsubpb.SeekRequest_Time{Time: timestamppb.New(between)}})
				return err
			}
			return w
		}},
		{"update-turns-ordering-off", func(e *rig.Env, v int) *c10World {
			// UpdateSubscription with only enable_message_ordering in the mask: the
			// message held back behind its leased same-key predecessor becomes
			// deliverable the moment ordering is switched off
			mkTopic(e, T)
			mkSub(e, &pubsubpb.Subscription{Name: sub(0), Topic: T, EnableMessageOrdering: true})
			n := 2 + (v/2)%2
			for j := 0; j < n; j++ {
				must(e.Pub.Publish(e.Ctx, &pubsubpb.PublishRequest{Topic: T, Messages: []*pubsubpb.PubsubMessage{{Data: []byte(fmt.Sprint(j)), OrderingKey: "k"}}}))
				time.Sleep(time.Millisecond)
			}
			if got := pullIDs(e, sub(0), 5); len(got) != 1 {
				panic(fmt.Sprintf("expected only the head of the key, got %d", len(got)))
			}
			if v%2 == 0 {
				actions.WakeAllInternal()
			}
			w := &c10World{e: e, waitSubs: []string{sub(0)}}
			w.writer = func(ctx context.Context) error {
				_, err := e.Sub.UpdateSubscription(ctx, &pubsubpb.UpdateSubscriptionRequest{
					Subscription: &pubsubpb.Subscription{Name: sub(0), EnableMessageOrdering: false},
					UpdateMask:   &fieldmaskpb.FieldMask{Paths: []string{"enable_message_ordering"}}})
				return err
			}
			return w
		}},
		{"two-pullers-share-a-subscription", func(e *rig.Env, v int) *c10World {
			// two waiting pulls on ONE subscription and several publishes: the wait
			// registry of a subscription is shared state, and one pull coming and going
			// (registering, being woken, re-registering, cleaning up on return) must not
			// disturb the other's registration. The second puller is started by the
			// writer, j half-steps before the first publish; a second publish follows
			// half a step later (it fires whatever is registered then), and after
			// everything has settled a third one must still reach whoever is waiting
			mkTopic(e, T)
			mkSub(e, &pubsubpb.Subscription{Name: sub(0), Topic: T})
			if v%2 == 0 {
				actions.WakeAllInternal()
			}
			w := &c10World{e: e, waitSubs: []string{sub(0)}, pullOnly: true}
			j := (v / 2) % 4
			w.writer = func(ctx context.Context) error {
				w.late = append(w.late, startWaiter(e, sub(0), false, 7))
				time.Sleep(time.Duration(j) * c10D / 2)
				if err := pub1(ctx, e, T, ""); err != nil {
					return err
				}
				time.Sleep(c10D / 2)
				if err := pub1(ctx, e, T, ""); err != nil {
					return err
				}
				for q := 0; q < 16; q++ {
					time.Sleep(c10D / 2)
					rig.Quiesce()
				}
				return pub1(ctx, e, T, "")
			}
			return w
		}},
	}
}

type c10Waiter struct {
	sub    string
	stream bool
	done   chan struct{}
	got    int
	err    error
	fs     *rig.FakeStream
	mu     sync.Mutex
	at     time.Time
	hdone  chan struct{} // stream handler returned
}

func (w *c10Waiter) isDone() bool {
	select {
	case <-w.done:
		return true
	default:
		return false
	}
}

func startWaiter(e *rig.Env, sub string, stream bool, idx int) *c10Waiter {
	w := &c10Waiter{sub: sub, stream: stream, done: make(chan struct{})}
	ctx := e.Actor(fmt.Sprintf("waiter%d", idx))
	if !stream {
		go func() {
			r, err := e.Sub.Pull(ctx, &pubsubpb.PullRequest{Subscription: sub, MaxMessages: 10})
			w.err = err
			if r != nil {
				w.got = len(r.ReceivedMessages)
			}
			w.at = time.Now()
			close(w.done)
		}()
		return w
	}
	w.fs = rig.NewFakeStream(ctx)
	var once sync.Once
	w.fs.OnSend = func(b rig.SentBatch) {
		once.Do(func() {
			w.got = len(b.Msgs)
			w.at = time.Now()
			close(w.done)
		})
	}
	w.hdone = make(chan struct{})
	go func() {
		err := e.Sub.StreamingPull(w.fs)
		w.mu.Lock()
		w.err = err
		w.mu.Unlock()
		// a stream the server ends (its subscription is gone) has returned, too
		once.Do(func() {
			w.at = time.Now()
			close(w.done)
		})
		close(w.hdone)
	}()
	w.fs.Push(&pubsubpb.StreamingPullRequest{Subscription: sub, StreamAckDeadlineSeconds: 10, MaxOutstandingMessages: 10})
	return w
}

func TestC10(t *testing.T) {
	cfg := evd.Env()
	col := evd.New("C10", cfg)
	defer col.Flush()
	scenarios := c10Scenarios()
	variants := cfg.N(8, 240)
	idx := 0
	var blocked, woken int64
	orders := map[string]bool{}
	for si, sc := range scenarios {
		for v := 0; v < variants; v++ {
			for k := -1; k <= 6; k++ { // writer start offset (k + 1/2) * D relative to the waiters' start
				for _, commitDelay := range []time.Duration{0, c10D} {
					for _, stream := range []bool{false, true} {
						idx++
						seed := cfg.CaseSeed("C10", si*1000+v)
						if !cfg.Want(idx, seed) {
							continue
						}
						rig.SetWatchdogContext(fmt.Sprintf("C10 %s v=%d k=%d", sc.name, v, k))
						rig.RunCase(t, seed, rig.Opts{}, func(e *rig.Env) {
							w := sc.setup(e, v)
							if w.pullOnly && stream {
								return
							}
							var omu sync.Mutex
							var order []string
							seam.C.SetBoundaryObserver(func(actor string, kind seam.Kind) {
								if actor == "main" || actor == "" {
									return
								}
								omu.Lock()
								order = append(order, actor[:2]+string(kind[0]))
								omu.Unlock()
							})
							seam.C.SetBoundaryDelays(
								func(actor string) time.Duration {
									if strings.HasPrefix(actor, "waiter") {
										return c10D
									}
									return 0
								},
								func(actor string) time.Duration {
									if strings.HasPrefix(actor, "waiter") {
										return c10D
									}
									if actor == "writer" {
										return commitDelay
									}
									return 0
								})
							start := time.Now()
							var waiters []*c10Waiter
							for i, s := range w.waitSubs {
								waiters = append(waiters, startWaiter(e, s, stream, i))
							}
							if d := time.Until(start.Add(time.Duration(2*k+1) * c10D / 2)); d > 0 {
								time.Sleep(d)
							}
							wasBlocked := true
							for _, wt := range waiters {
								if wt.isDone() {
									wasBlocked = false
								}
							}
							werr := w.writer(e.Actor("writer"))
							if werr != nil {
								col.Inconclusive(fmt.Sprintf("%s: writer failed: %v", sc.name, werr))
							}
							waiters = append(waiters, w.late...)
							tw := time.Now()
							// quiescence loop: the waiters may still be inside their own
							// scheduled boundary delays; give them those, and nothing more
							budget := 14 * c10D
							lost := []string{}
							for {
								rig.Quiesce()
								all := true
								for _, wt := range waiters {
									if !wt.isDone() {
										all = false
									}
								}
								if all {
									break
								}
								if time.Since(tw) > budget {
									for _, wt := range waiters {
										if !wt.isDone() {
											lost = append(lost, wt.sub)
										}
									}
									break
								}
								time.Sleep(c10D / 2)
							}
							omu.Lock()
							ord := strings.Join(order, " ")
							omu.Unlock()
							if wasBlocked {
								blocked++
							}
							if len(lost) > 0 && werr == nil {
								// how long does it really take? (diagnostic)
								late := "never within 70 s"
								deadline := time.Now().Add(70 * time.Second)
								for time.Now().Before(deadline) {
									rig.Quiesce()
									alld := true
									for _, wt := range waiters {
										if !wt.isDone() {
											alld = false
										}
									}
									if alld {
										late = fmt.Sprintf("only after %v (a timer, not the wake-up)", time.Since(tw))
										break
									}
									time.Sleep(500 * time.Millisecond)
								}
								kind := "pull"
								if stream {
									kind = "streaming-pull"
								}
								col.Violation("lost-wakeup:"+sc.name, fmt.Sprintf("%s (variant %d, %s waiter): writer committed at +%v (offset slot k=%d, commit->notify delay %v) but the waiter(s) on %v were still blocked %v of virtual time later; they returned %s", sc.name, v, kind, tw.Sub(start), k, commitDelay, lost, budget, late),
									map[string]any{"scenario": sc.name, "variant": v, "k": k, "commit_delay": commitDelay.String(), "stream": stream, "case_seed": seed, "boundary_order": ord, "sql_tail": seam.C.TraceTail(30)})
							} else {
								woken++
								for _, wt := range waiters {
									if wt.got == 0 && werr == nil && wt.err == nil {
										col.Violation("woke-empty:"+sc.name, fmt.Sprintf("%s: waiter on %s returned without a message although one became deliverable", sc.name, wt.sub), map[string]any{"scenario": sc.name, "variant": v, "k": k})
									}
								}
							}
							orders[ord] = true
							col.Case(evd.FP(sc.name, ord, stream), wasBlocked)
							// end the waiters
							for _, wt := range waiters {
								if wt.fs != nil {
									wt.fs.Cancel()
								}
							}
							seam.C.SetBoundaryDelays(nil, nil)
							seam.C.SetBoundaryObserver(nil)
							actions.WakeAllInternal()
							// unary waiters that are still blocked end at their own timeout
							for _, wt := range waiters {
								if !wt.stream {
									<-wt.done
								} else {
									<-wt.hdone
								}
							}
							rig.Quiesce()
						})
					}
				}
			}
		}
	}
	col.Add("relevant_events", blocked)
	col.Add("ev_cases_waiter_was_blocked_when_writer_started", blocked)
	col.Add("ev_cases_waiter_woken_in_time", woken)
	i := 0
	for o := range orders {
		if i < 3 {
			col.Sample(map[string]any{"boundary_order": o})
		}
		i++
	}
}
