package rigv

import (
	"testing"
	"time"

	"verif/harness/evd"
	"verif/harness/hist"
)

var baseW = map[string]int{
	"publish": 30, "pull": 25, "pull-due": 8, "ack": 14, "ack-all": 3, "stale": 4, "modack": 8, "jump": 12,
	"jump-long": 1, "seek-time": 3, "snapshot": 2, "seek-snapshot": 2, "job": 6, "expire-job": 1, "sweep": 3,
	"delete-sub": 1, "create-sub": 2, "delete-topic": 1, "create-topic": 1, "update-sub": 2, "stream": 3, "bad": 3, "nack": 3,
}

func weights(over map[string]int) map[string]int {
	m := map[string]int{}
	for k, v := range baseW {
		m[k] = v
	}
	for k, v := range over {
		m[k] = v
	}
	return m
}

func profiles(prop string) []hist.Profile {
	sec, min, hour, day := time.Second, time.Minute, time.Hour, 24*time.Hour
	_ = sec
	switch prop {
	case "C01":
		return []hist.Profile{
			{Name: "loss", Ops: 90, Topics: 3, Subs: 4, POrdered: 0.3, PFilter: 0.4, PDL: 0.3, PRetry: 0.6,
				Retentions: []time.Duration{0, hour, 10 * min}, Keys: []string{"", "", "k1", "k2"}, W: weights(nil), PublishFaultPct: 15},
			{Name: "loss-long", Ops: 220, Topics: 2, Subs: 3, POrdered: 0.3, PFilter: 0.3, PDL: 0.2, PRetry: 0.5, PublishFaultPct: 10,
				Keys: []string{"", "k1"}, W: weights(map[string]int{"job": 12, "bad": 6, "pull-wait": 4})},
			{Name: "loss-idle-subscriptions", Ops: 100, Topics: 2, Subs: 4, POrdered: 0.2, PFilter: 0.2, PDL: 0.1, PRetry: 0.5,
				TTLs: []time.Duration{min, 10 * min, hour}, Retentions: []time.Duration{0, hour}, Keys: []string{"", "k1"},
				W: weights(map[string]int{"jump": 18, "expire-job": 2, "update-ttl": 2, "create-sub": 4, "seek-time": 1, "snapshot": 0, "seek-snapshot": 0})},
			{Name: "loss-shared-topic", Ops: 110, Topics: 1, Subs: 4, POrdered: 0.2, PFilter: 0.2, PDL: 0, PRetry: 0.5,
				Keys: []string{"", "k1"}, W: weights(map[string]int{"ack": 20, "snapshot": 6, "seek-snapshot": 8, "seek-time": 6, "delete-topic": 0, "delete-sub": 2, "create-sub": 3})},
		}
	case "C02":
		return []hist.Profile{
			{Name: "content", Ops: 80, Topics: 2, Subs: 5, POrdered: 0.2, PFilter: 0.6, PDL: 0.15, PRetry: 0.4, Rich: true, Decoy: true,
				Keys: []string{"", "k", "ünï ḱey", "a/b c"}, W: weights(map[string]int{"publish": 35, "pull": 35, "seek-time": 4, "delete-sub": 2, "create-sub": 3, "foreign": 3, "stream": 5})},
			{Name: "independence", Ops: 120, Topics: 2, Subs: 6, POrdered: 0.3, PFilter: 0.5, PDL: 0.2, PRetry: 0.4, Decoy: true,
				Keys: []string{"", "k1"}, W: weights(map[string]int{"ack": 18, "modack": 10, "seek-time": 6, "seek-snapshot": 3, "snapshot": 3, "delete-sub": 3, "create-sub": 4, "update-sub": 4, "foreign": 3})},
			{Name: "independence-shared-topic", Ops: 110, Topics: 1, Subs: 4, POrdered: 0.2, PFilter: 0.3, PDL: 0, PRetry: 0.4, Decoy: true,
				Keys: []string{"", "k1"}, W: weights(map[string]int{"ack": 20, "modack": 8, "seek-time": 8, "seek-snapshot": 9, "snapshot": 7, "delete-sub": 3, "create-sub": 4, "update-sub": 3, "delete-topic": 0, "foreign": 2})},
		}
	case "C03":
		return []hist.Profile{
			{Name: "ack", Ops: 120, Topics: 2, Subs: 3, POrdered: 0.35, PFilter: 0.3, PDL: 0.35, PRetry: 0.6, Decoy: true,
				Keys: []string{"", "k1", "k2"}, MaxAttempt: []int32{2, 3, 5},
				W: weights(map[string]int{"ack": 22, "ack-fault": 6, "stale": 14, "modack": 8, "nack": 8, "pull-due": 12, "sweep": 5, "job": 8, "seek-time": 1, "seek-snapshot": 0, "snapshot": 0, "stream": 6, "foreign": 3, "delete-sub": 0, "delete-topic": 0})},
		}
	case "C04":
		return []hist.Profile{
			{Name: "lease", Ops: 140, Topics: 1, Subs: 3, POrdered: 0.1, PFilter: 0.1, PDL: 0, PRetry: 0.85, CallFaultPct: 8,
				Keys: []string{""}, W: weights(map[string]int{"publish": 12, "pull": 22, "pull-due": 30, "pull-wait": 8, "ack": 4, "ack-all": 0, "modack": 16, "nack": 10, "jump": 16, "jump-long": 0, "seek-time": 0, "seek-snapshot": 0, "snapshot": 0, "delete-sub": 0, "delete-topic": 0, "create-topic": 0, "update-sub": 4, "sweep": 0, "job": 2, "stream": 8})},
			{Name: "lease-default", Ops: 160, Topics: 1, Subs: 2, PRetry: 0,
				Keys: []string{""}, W: weights(map[string]int{"publish": 6, "pull": 10, "pull-due": 40, "pull-wait": 8, "ack": 2, "ack-all": 0, "modack": 10, "jump": 10, "jump-long": 0, "seek-time": 0, "seek-snapshot": 0, "snapshot": 0, "delete-sub": 0, "delete-topic": 0, "create-topic": 0, "update-sub": 0, "sweep": 0, "job": 0, "stream": 0, "bad": 1})},
		}
	case "C05":
		return []hist.Profile{
			{Name: "order", Ops: 130, Topics: 1, Subs: 3, POrdered: 0.9, PFilter: 0.2, PDL: 0, PRetry: 0.7,
				Retentions: []time.Duration{0, 0, 10 * min}, Keys: []string{"", "k1", "k1", "k2", " k2", "k2 ", " ", "\tk1"}, // an ordering key is an opaque string: blanks are part of it
				W: weights(map[string]int{"publish": 30, "pull": 25, "pull-due": 10, "ack": 20, "modack": 8, "job": 10, "seek-time": 0, "seek-snapshot": 0, "snapshot": 0, "sweep": 0, "update-sub": 0, "delete-topic": 0, "stream": 4})},
			{Name: "order-dl", Ops: 130, Topics: 2, Subs: 3, POrdered: 0.8, PFilter: 0.1, PDL: 0.5, PRetry: 0.8,
				Keys: []string{"", "k1", "k1", "k2"}, MaxAttempt: []int32{1, 2, 3},
				W: weights(map[string]int{"publish": 30, "pull": 25, "pull-due": 14, "ack": 14, "modack": 8, "job": 8, "sweep": 5, "seek-time": 0, "seek-snapshot": 0, "snapshot": 0, "update-sub": 0, "delete-topic": 0})},
			{Name: "order-seek-retention", Ops: 130, Topics: 1, Subs: 2, POrdered: 1, PRetry: 0.7,
				Retentions: []time.Duration{0, 10 * min}, Keys: []string{"k1", "k1", "k2", ""},
				W: weights(map[string]int{"publish": 30, "pull": 25, "ack": 18, "seek-time": 6, "snapshot": 3, "seek-snapshot": 4, "update-sub": 4, "job": 8, "delete-topic": 0})},
		}
	case "C06":
		return []hist.Profile{
			{Name: "deadletter", Ops: 120, Topics: 3, Subs: 4, POrdered: 0.15, PFilter: 0.35, PDL: 0.7, PRetry: 0.8,
				Keys: []string{"", "", "k1"}, MaxAttempt: []int32{1, 2, 3, 5},
				W: weights(map[string]int{"publish": 22, "pull": 22, "pull-due": 22, "ack": 8, "modack": 10, "nack": 12, "stale": 4, "sweep": 10, "jump": 10, "seek-time": 0, "seek-snapshot": 0, "snapshot": 0, "delete-topic": 2, "create-topic": 2, "delete-sub": 2, "create-sub": 3, "stream": 3, "update-dl": 4})},
		}
	case "C13":
		return []hist.Profile{
			{Name: "seek", Ops: 120, Topics: 2, Subs: 3, POrdered: 0.15, PFilter: 0.3, PDL: 0, PRetry: 0.6,
				Retentions: []time.Duration{0, hour, 10 * min}, Keys: []string{"", "k1"},
				W: weights(map[string]int{"publish": 26, "pull": 24, "ack": 18, "seek-time": 12, "snapshot": 8, "seek-snapshot": 10, "job": 6, "sweep": 0, "delete-topic": 1, "stream": 3})},
			// seeks over deliveries that were settled in every way there is: acked,
			// acked on their last permitted attempt, dead-lettered, seeked past
			{Name: "seek-settled-every-way", Ops: 120, Topics: 2, Subs: 3, POrdered: 0.4, PFilter: 0.1, PDL: 0.7, PRetry: 0.8,
				Retentions: []time.Duration{0, hour}, Keys: []string{"", "k1", "k1"}, MaxAttempt: []int32{1, 2, 3},
				W: weights(map[string]int{"publish": 26, "pull": 22, "pull-due": 12, "ack": 10, "nack": 12, "seek-time": 14, "snapshot": 3, "seek-snapshot": 4, "job": 3, "sweep": 4, "delete-topic": 0, "stream": 0})},
		}
	case "C14":
		return []hist.Profile{
			{Name: "retention", Ops: 110, Topics: 2, Subs: 4, POrdered: 0.2, PFilter: 0.2, PDL: 0.1, PRetry: 0.5,
				Retentions: []time.Duration{10 * sec, 10 * min, 0, 31 * day}, TTLs: []time.Duration{min, day, 0, 365 * day},
				Keys: []string{"", "k1"},
				W:    weights(map[string]int{"publish": 22, "pull": 20, "pull-wait": 6, "pull-due": 6, "ack": 8, "jump": 16, "jump-long": 6, "expire-job": 10, "update-ttl": 4, "set-delay": 6, "seek-time": 5, "snapshot": 3, "seek-snapshot": 5, "job": 6, "create-sub": 5})},
		}
	case "C15":
		return []hist.Profile{
			{Name: "prune", Ops: 140, Topics: 3, Subs: 4, POrdered: 0.4, PFilter: 0.3, PDL: 0.5, PRetry: 0.6, MaxAttempt: []int32{1, 2, 3},
				Retentions: []time.Duration{0, 10 * min, 20 * sec}, Keys: []string{"", "k1", "k2"},
				W: weights(map[string]int{"job": 40, "expire-job": 3, "jump-long": 3, "delete-sub": 3, "create-sub": 4, "delete-topic": 2, "create-topic": 2, "seek-time": 9, "jump": 12})},
		}
	}
	return nil
}

func runHistProperty(t *testing.T, prop string, quick, thorough int) {
	cfg := evd.Env()
	col := evd.New(prop, cfg)
	defer col.Flush()
	ps := profiles(prop)
	n := cfg.N(quick, thorough)
	for i := 0; i < n; i++ {
		seed := cfg.CaseSeed(prop, i)
		if !cfg.Want(i, seed) {
			continue
		}
		p := ps[i%len(ps)]
		if prop == "C04" {
			// the lease property also covers deadline changes made on a stream,
			// per ack id
			hist.RunHistoryOpt(t, col, prop, p, seed, func(w *hist.World) { w.StreamExtends = true }, nil)
			continue
		}
		if prop == "C03" {
			hist.RunHistoryOpt(t, col, prop, p, seed, func(w *hist.World) { w.StreamAckFaultPct = 30 }, nil)
			continue
		}
		if prop == "C13" || prop == "C05" {
			hist.RunHistoryOpt(t, col, prop, p, seed, func(w *hist.World) { w.SeekRows = true }, nil)
			continue
		}
		if prop == "C14" {
			// the expired-deliveries pruner is what ends a retention period
			// physically: every run of it is held to "only what has expired"
			hist.RunHistoryOpt(t, col, prop, p, seed, func(w *hist.World) { w.CheckJobs = true }, nil)
			continue
		}
		hist.RunHistory(t, col, prop, p, seed)
	}
}

func TestC01(t *testing.T) { runHistProperty(t, "C01", 320, 16000) }
func TestC02(t *testing.T) { runHistProperty(t, "C02", 320, 12000) }
func TestC03(t *testing.T) { runHistProperty(t, "C03", 320, 12000) }
func TestC04(t *testing.T) { runHistProperty(t, "C04", 320, 12000) }
func TestC05(t *testing.T) { runHistProperty(t, "C05", 384, 16000) }
func TestC06(t *testing.T) { runHistProperty(t, "C06", 320, 12000) }
func TestC13(t *testing.T) { runHistProperty(t, "C13", 640, 16000) }
func TestC14(t *testing.T) { runHistProperty(t, "C14", 320, 12000) }
