package rigv

import (
	"testing"
	"time"

	"verif/harness/evd"
	"verif/harness/hist"
)

var baseW = map[string]int{
	"publish": 30, "pull": 25, "pull-due": 8, "ack": 14, "ack-all": 3, "stale": 4, "modack": 8, "jump": 12,
	"jump-long": 1, "seek-time": 3, "snapshot": 2, "seek-snapshot": 2, "job": 6, "expire-job": 1, "sweep": 3,
	"delete-sub": 1, "create-sub": 2, "delete-topic": 1, "create-topic": 1, "update-sub": 2, "stream": 3, "bad": 3,
}

func weights(over map[string]int) map[string]int {
	m := map[string]int{}
	for k, v := range baseW {
		m[k] = v
	}
	for k, v := range over {
		m[k] = v
	}
	return m
}

func profiles(prop string) []hist.Profile {
	switch prop {
	case "C01":
		return []hist.Profile{
			{Name: "loss", Ops: 90, Topics: 3, Subs: 4, POrdered: 0.3, PFilter: 0.4, PDL: 0.3, PRetry: 0.6,
				Retentions: []time.Duration{0, time.Hour, 10 * time.Minute}, Keys: []string{"", "", "k1", "k2"}, W: weights(nil)},
			{Name: "loss-long", Ops: 220, Topics: 2, Subs: 3, POrdered: 0.3, PFilter: 0.3, PDL: 0.2, PRetry: 0.5,
				Keys: []string{"", "k1"}, W: weights(map[string]int{"job": 12, "bad": 6})},
		}
	}
	return nil
}

func runHistProperty(t *testing.T, prop string, quick, thorough int) {
	cfg := evd.Env()
	col := evd.New(prop, cfg)
	defer col.Flush()
	ps := profiles(prop)
	n := cfg.N(quick, thorough)
	for i := 0; i < n; i++ {
		if !cfg.Mine(i) {
			continue
		}
		p := ps[i%len(ps)]
		hist.RunHistory(t, col, prop, p, cfg.CaseSeed(prop, i))
	}
}

func TestC01(t *testing.T) { runHistProperty(t, "C01", 320, 16000) }
