package rigv

import (
	"context"
	"fmt"
	"strings"
	"testing"
	"time"

	"github.com/google/uuid"
	"google.golang.org/protobuf/types/known/durationpb"

	"go.6river.tech/mmmbbb/actions"
	"go.6river.tech/mmmbbb/grpc/pubsubpb"

	"verif/harness/evd"
	"verif/harness/rig"
)

// TestC05fwd: ordered delivery among dead-letter forwarded copies. In the
// histories the order in which copies arrive on a dead-letter subscription is
// only known up to the batch a sweep or a pull forwards, so pairs of forwarded
// copies are left alone there. Here the copies are forwarded one at a time, from
// two ordered source subscriptions in a seeded interleaving, so the arrival order
// on the ordered dead-letter subscription is known exactly. Oracle, on pairs
// where arrival order and publish order agree (the only unambiguous ones): a copy
// is never delivered while a copy of the same key that arrived earlier and was
// published earlier is unacknowledged.
func TestC05fwd(t *testing.T) {
	cfg := evd.Env()
	col := evd.New("C05", cfg)
	defer col.Flush()
	n := cfg.N(64, 2000)
	var pairsChecked, forwards int64
	for i := 0; i < n; i++ {
		seed := cfg.CaseSeed("C05fwd", i)
		if !cfg.Want(i, seed) {
			continue
		}
		rig.RunCase(t, seed, rig.Opts{Tick: time.Microsecond}, func(e *rig.Env) {
			r := e.Rand
			T, D := "projects/p/topics/t", "projects/p/topics/dead"
			mkTopic(e, T)
			mkTopic(e, D)
			Q := "projects/p/subscriptions/q"
			mkSub(e, &pubsubpb.Subscription{Name: Q, Topic: D, EnableMessageOrdering: true})
			nsrc := 1 + r.Intn(2)
			var srcs []string
			for s := 0; s < nsrc; s++ {
				nm := fmt.Sprintf("projects/p/subscriptions/src%d", s)
				mkSub(e, &pubsubpb.Subscription{Name: nm, Topic: T, EnableMessageOrdering: r.Intn(4) > 0,
					DeadLetterPolicy: &pubsubpb.DeadLetterPolicy{DeadLetterTopic: D, MaxDeliveryAttempts: 1},
					RetryPolicy:      &pubsubpb.RetryPolicy{MinimumBackoff: durationpb.New(time.Second), MaximumBackoff: durationpb.New(time.Second)}})
				srcs = append(srcs, nm)
			}
			k := 3 + r.Intn(3)
			pubSeq := map[string]int{}
			keyOf := map[string]string{}
			for j := 0; j < k; j++ {
				key := "k"
				if r.Intn(5) == 0 {
					key = "other"
				}
				resp := must(e.Pub.Publish(e.Ctx, &pubsubpb.PublishRequest{Topic: T, Messages: []*pubsubpb.PubsubMessage{{Data: []byte(fmt.Sprintf(`{"j":%d}`, j)), OrderingKey: key}}}))
				pubSeq[resp.MessageIds[0]] = j
				keyOf[resp.MessageIds[0]] = key
				time.Sleep(time.Millisecond)
			}
			// forward one copy at a time: lease the head of a source, give it back; the
			// next pull of that source dead-letters it (N = 1)
			type arrival struct {
				row string // delivery row on the dead-letter subscription (= its ack id)
				msg string
				key string
				pub int
				// batch > 0: forwarded together with others by one sweep (one
				// transaction): the order among them is not known
				batch int
			}

			var arrivals []arrival
			var trace []string
			seenRow := map[string]bool{}
			note := func(src string, batch int) {
				// which copies have arrived is read off the dead-letter subscription's rows
				rows, err := e.RawDB().QueryContext(context.Background(), `SELECT d.id, d.message_id FROM deliveries d JOIN subscriptions s ON d.subscription_id = s.id WHERE s.name = ?`, Q)
				if err != nil {
					t.Fatalf("rows: %v", err)
				}
				defer rows.Close()
				for rows.Next() {
					var id, mid any
					if err := rows.Scan(&id, &mid); err != nil {
						t.Fatalf("scan: %v", err)
					}
					rid, m := idStr(id), idStr(mid)
					if !seenRow[rid] {
						seenRow[rid] = true
						arrivals = append(arrivals, arrival{rid, m, keyOf[m], pubSeq[m], batch})
						trace = append(trace, fmt.Sprintf("%s:m%d", src, pubSeq[m]))
						forwards++
					}
				}
			}
			batchMode := i%3 == 2
			steps := nsrc*k + 2
			if batchMode {
				// every message gets its one delivery on an unordered source and is given
				// back; then ONE run of the dead-letter sweep forwards them all together.
				// Afterwards more messages of the same keys arrive one by one
				steps = 0
				src := "projects/p/subscriptions/batchsrc"
				mkSub(e, &pubsubpb.Subscription{Name: src, Topic: T,
					DeadLetterPolicy: &pubsubpb.DeadLetterPolicy{DeadLetterTopic: D, MaxDeliveryAttempts: 1},
					RetryPolicy:      &pubsubpb.RetryPolicy{MinimumBackoff: durationpb.New(time.Second), MaximumBackoff: durationpb.New(time.Second)}})
				for j := 0; j < 2+r.Intn(3); j++ {
					resp := must(e.Pub.Publish(e.Ctx, &pubsubpb.PublishRequest{Topic: T, Messages: []*pubsubpb.PubsubMessage{{Data: []byte(fmt.Sprintf(`{"b":%d}`, j)), OrderingKey: "k"}}}))
					pubSeq[resp.MessageIds[0]] = len(pubSeq)
					keyOf[resp.MessageIds[0]] = "k"
					time.Sleep(time.Millisecond)
				}
				var ids []string
				for _, rm := range must(e.Sub.Pull(e.Ctx, &pubsubpb.PullRequest{Subscription: src, MaxMessages: 100, ReturnImmediately: true})).ReceivedMessages {
					ids = append(ids, rm.AckId)
				}
				must(e.Sub.ModifyAckDeadline(e.Ctx, &pubsubpb.ModifyAckDeadlineRequest{Subscription: src, AckIds: ids, AckDeadlineSeconds: 0}))
				time.Sleep(5 * time.Millisecond)
				sweep := actions.NewDeadLetterDeliveries(actions.DeadLetterDeliveriesParams{MaxDeliveries: 100})
				if err := e.Client.DoCtxTx(e.Ctx, nil, sweep.Execute); err != nil {
					t.Fatalf("sweep: %v", err)
				}
				note("sweep", 1)
				time.Sleep(5 * time.Millisecond)
				// later arrivals, one at a time, by the same route (how a message published
				// straight to the dead-letter topic is ordered relative to forwarded copies
				// is left open, as in the histories: the code chains a message only to
				// deliveries of messages of its own topic)
				for j := 0; j < 1+r.Intn(3); j++ {
					resp := must(e.Pub.Publish(e.Ctx, &pubsubpb.PublishRequest{Topic: T, Messages: []*pubsubpb.PubsubMessage{{Data: []byte(fmt.Sprintf(`{"late":%d}`, j)), OrderingKey: "k"}}}))
					pubSeq[resp.MessageIds[0]] = len(pubSeq)
					keyOf[resp.MessageIds[0]] = "k"
					var lids []string
					for _, rm := range must(e.Sub.Pull(e.Ctx, &pubsubpb.PullRequest{Subscription: src, MaxMessages: 100, ReturnImmediately: true})).ReceivedMessages {
						lids = append(lids, rm.AckId)
					}
					if len(lids) > 0 {
						must(e.Sub.ModifyAckDeadline(e.Ctx, &pubsubpb.ModifyAckDeadlineRequest{Subscription: src, AckIds: lids, AckDeadlineSeconds: 0}))
					}
					time.Sleep(5 * time.Millisecond)
					must(e.Sub.Pull(e.Ctx, &pubsubpb.PullRequest{Subscription: src, MaxMessages: 100, ReturnImmediately: true}))
					note("later", 0)
					time.Sleep(time.Millisecond)
				}
			}
			for step := 0; step < steps; step++ {
				src := srcs[r.Intn(len(srcs))]
				pr := must(e.Sub.Pull(e.Ctx, &pubsubpb.PullRequest{Subscription: src, MaxMessages: 1, ReturnImmediately: true}))
				if len(pr.ReceivedMessages) == 0 {
					continue
				}
				rm := pr.ReceivedMessages[0]
				must(e.Sub.ModifyAckDeadline(e.Ctx, &pubsubpb.ModifyAckDeadlineRequest{Subscription: src, AckIds: []string{rm.AckId}, AckDeadlineSeconds: 0}))
				time.Sleep(5 * time.Millisecond)
				// this pull retires the message (it has had its one delivery) and forwards it
				pr2 := must(e.Sub.Pull(e.Ctx, &pubsubpb.PullRequest{Subscription: src, MaxMessages: 1, ReturnImmediately: true}))
				for _, x := range pr2.ReceivedMessages {
					// the next one was leased by the same pull: give it back for a later step
					must(e.Sub.ModifyAckDeadline(e.Ctx, &pubsubpb.ModifyAckDeadlineRequest{Subscription: src, AckIds: []string{x.AckId}, AckDeadlineSeconds: 600}))
				}
				_ = rm
				note(src[len(src)-4:], 0)
				time.Sleep(5 * time.Millisecond)
			}
			// consume the dead-letter subscription without hurry: whatever is delivered
			// stays unacknowledged for a while
			arrivedBefore := func(msg string, idx int) bool { // does msg have an arrival before position idx?
				for a := 0; a < idx; a++ {
					if arrivals[a].msg == msg {
						return true
					}
				}
				return false
			}
			_ = arrivedBefore
			unacked := map[int]bool{} // arrival positions delivered and not yet acked
			delivered := map[int]bool{}
			ackOf := map[int]string{}
			pos := func(ackID string) int { // the arrival this delivery is (an ack id is the delivery's row id)
				for a := range arrivals {
					if arrivals[a].row == ackID && !delivered[a] {
						return a
					}
				}
				return -1
			}
			for round := 0; round < 4*len(arrivals)+4; round++ {
				pr := must(e.Sub.Pull(e.Ctx, &pubsubpb.PullRequest{Subscription: Q, MaxMessages: 10, ReturnImmediately: true}))
				for _, rm := range pr.ReceivedMessages {
					a := pos(rm.AckId)
					if a < 0 {
						continue // a redelivery of something delivered before (its lease ran out)
					}
					delivered[a], unacked[a], ackOf[a] = true, true, rm.AckId
					for b := 0; b < a; b++ {
						if arrivals[b].key != arrivals[a].key || arrivals[b].pub >= arrivals[a].pub {
							continue
						}
						if arrivals[a].batch > 0 && arrivals[a].batch == arrivals[b].batch {
							continue // forwarded by the same sweep: which arrived first is not known
						}
						pairsChecked++
						if !delivered[b] || unacked[b] {
							var rows []string
							if d, err := rig.TakeDump(e.RawDB()); err == nil {
								qid := ""
								for _, r := range d["subscriptions"] {
									if r["name"] == Q {
										qid = r["id"]
									}
								}
								for _, r := range d["deliveries"] {
									if r["subscription_id"] == qid {
										rows = append(rows, fmt.Sprintf("{id=%s m%d not_before=%.8s attempts=%s completed=%s published_at=%s}", r["id"][:8], pubSeq[r["message_id"]], r["not_before_id"], r["attempts"], r["completed_at"], r["published_at"]))
									}
								}
							}
							trace = append(trace, "| rows of the dead-letter subscription: "+strings.Join(rows, " "))
							col.Violation("forwarded-copies:overtook-predecessor", fmt.Sprintf("ordered dead-letter subscription: the copy of message %d (key %q, arrival %d) was delivered while the copy of message %d (same key, published earlier, arrival %d) is %s; arrivals in order: %s",
								arrivals[a].pub, arrivals[a].key, a, arrivals[b].pub, b, map[bool]string{true: "delivered but unacknowledged", false: "not even delivered"}[delivered[b]], strings.Join(trace, " ")),
								map[string]any{"case_seed": seed, "arrivals": trace})
						}
					}
				}
				// acknowledge the oldest unacknowledged arrival, sometimes nothing
				if r.Intn(3) > 0 {
					for a := range arrivals {
						if unacked[a] {
							must(e.Sub.Acknowledge(e.Ctx, &pubsubpb.AcknowledgeRequest{Subscription: Q, AckIds: []string{ackOf[a]}}))
							delete(unacked, a)
							break
						}
					}
				}
				time.Sleep(10 * time.Millisecond)
			}
			col.Case(evd.FP("fwd", strings.Join(trace, " ")), len(arrivals) >= 3)
			if i < 2 {
				col.Sample(map[string]any{"arrivals": trace})
			}
		})
	}
	col.Add("ev_forwarded_copy_pairs_checked", pairsChecked)
	col.Add("ev_copies_forwarded_one_at_a_time", forwards)
	col.Add("relevant_events", pairsChecked)
}

func idStr(v any) string {
	switch x := v.(type) {
	case []byte:
		if len(x) == 16 {
			if u, err := uuid.FromBytes(x); err == nil {
				return u.String()
			}
		}
		return string(x)
	case string:
		return x
	}
	return fmt.Sprint(v)
}
