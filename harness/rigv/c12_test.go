package rigv

import (
	"fmt"
	"math/rand"
	"sort"
	"strings"
	"sync"
	"testing"
	"time"

	"google.golang.org/grpc/codes"
	"google.golang.org/grpc/status"

	"go.6river.tech/mmmbbb/grpc/pubsubpb"

	"verif/harness/evd"
	"verif/harness/rig"
	"verif/harness/seam"
)

// C12: one live resource per name; Get / List show exactly the live set.

var c12Projects = []string{"p", "P", "pq", "p_", "p%", "ü", "p q"}
var c12IDs = []string{"a", "A", "ab", "a_", "a%", "é"}

type c12Model struct {
	topics map[string]int // live name -> generation
	subs   map[string]*c12Sub
	snaps  map[string]string // name -> topic name
	gen    map[string]int
}

type c12Sub struct {
	gen    int
	topic  string
	tgen   int
	labels map[string]string
	// messages published to its topic generation since this generation exists
	expect map[string]bool
}

func name(kind, project, id string) string { return "projects/" + project + "/" + kind + "/" + id }

func c12Code(err error) codes.Code { return status.Code(err) }

type c12Run struct {
	e     *rig.Env
	m     *c12Model
	col   *evd.Collector
	seed  int64
	trace []string
	viol  int
}

func (r *c12Run) v(sig, format string, a ...any) {
	r.viol++
	tr := r.trace
	if len(tr) > 60 {
		tr = tr[len(tr)-60:]
	}
	r.col.Violation(sig, fmt.Sprintf(format, a...), map[string]any{"case_seed": r.seed, "last_operations": tr})
}

func (r *c12Run) expect(sig, op string, err error, want codes.Code) bool {
	r.trace = append(r.trace, fmt.Sprintf("%s -> %s", op, c12Code(err)))
	if c12Code(err) != want {
		r.v(sig, "%s answered %s (%v), expected %s", op, c12Code(err), err, want)
		return false
	}
	return true
}

func (r *c12Run) listWalk(kind, project string, pageSize int32) {
	e := r.e
	var got []string
	token := ""
	pages := 0
	for {
		pages++
		var names []string
		var next string
		var err error
		switch kind {
		case "topics":
			var resp *pubsubpb.ListTopicsResponse
			resp, err = e.Pub.ListTopics(e.Ctx, &pubsubpb.ListTopicsRequest{Project: "projects/" + project, PageSize: pageSize, PageToken: token})
			if resp != nil {
				for _, t := range resp.Topics {
					names = append(names, t.Name)
				}
				next = resp.NextPageToken
			}
		case "subscriptions":
			var resp *pubsubpb.ListSubscriptionsResponse
			resp, err = e.Sub.ListSubscriptions(e.Ctx, &pubsubpb.ListSubscriptionsRequest{Project: "projects/" + project, PageSize: pageSize, PageToken: token})
			if resp != nil {
				for _, t := range resp.Subscriptions {
					names = append(names, t.Name)
				}
				next = resp.NextPageToken
			}
		case "snapshots":
			var resp *pubsubpb.ListSnapshotsResponse
			resp, err = e.Sub.ListSnapshots(e.Ctx, &pubsubpb.ListSnapshotsRequest{Project: "projects/" + project, PageSize: pageSize, PageToken: token})
			if resp != nil {
				for _, t := range resp.Snapshots {
					names = append(names, t.Name)
				}
				next = resp.NextPageToken
			}
		}
		if err != nil {
			r.v("list-error:"+kind, "List %s of project %q page size %d failed: %v", kind, project, pageSize, err)
			return
		}
		if pageSize > 0 && pageSize < 100 && len(names) > int(pageSize) {
			r.v("page-too-large:"+kind, "List %s page size %d returned %d items", kind, pageSize, len(names))
		}
		got = append(got, names...)
		if next == "" || pages > 200 {
			break
		}
		token = next
	}
	var want []string
	prefix := "projects/" + project + "/" + kind + "/"
	switch kind {
	case "topics":
		for n := range r.m.topics {
			if strings.HasPrefix(n, prefix) {
				want = append(want, n)
			}
		}
	case "subscriptions":
		for n := range r.m.subs {
			if strings.HasPrefix(n, prefix) {
				want = append(want, n)
			}
		}
	case "snapshots":
		for n := range r.m.snaps {
			if strings.HasPrefix(n, prefix) {
				want = append(want, n)
			}
		}
	}
	sort.Strings(got)
	sort.Strings(want)
	r.trace = append(r.trace, fmt.Sprintf("list %s %q page=%d -> %d items in %d pages", kind, project, pageSize, len(got), pages))
	if strings.Join(got, "\n") != strings.Join(want, "\n") {
		shape := "wrong-set"
		gs, ws := map[string]int{}, map[string]bool{}
		for _, g := range got {
			gs[g]++
		}
		for _, w := range want {
			ws[w] = true
		}
		var foreign, missing, dup []string
		for g, n := range gs {
			if !ws[g] {
				foreign = append(foreign, g)
			} else if n > 1 {
				dup = append(dup, g)
			}
		}
		for _, w := range want {
			if gs[w] == 0 {
				missing = append(missing, w)
			}
		}
		switch {
		case len(got) == 0 && len(want) > 0:
			shape = "always-empty"
		case len(foreign) > 0 && len(missing) == 0 && len(dup) == 0:
			shape = "foreign-project"
			onlyCase := true
			for _, f := range foreign {
				if !strings.HasPrefix(strings.ToLower(f), strings.ToLower(prefix)) {
					onlyCase = false
				}
			}
			if onlyCase {
				shape = "foreign-project-case-fold"
			}
		case len(dup) > 0:
			shape = "duplicates"
		case len(missing) > 0:
			shape = "missing"
		}
		r.v("list:"+kind+":"+shape, "List %s of project %q with page size %d returned %v, the live set of exactly that project is %v", kind, project, pageSize, got, want)
	}
	r.col.Add("ev_list_walks", 1)
	r.col.Add("ev_list_pages", int64(pages))
}

// topicSubsWalk: ListTopicSubscriptions returns exactly the live subscriptions
// attached to the live generation of the topic (a re-created topic inherits none).
func (r *c12Run) topicSubsWalk(topic string, pageSize int32) {
	e := r.e
	var got []string
	token := ""
	pages := 0
	for {
		pages++
		resp, err := e.Pub.ListTopicSubscriptions(e.Ctx, &pubsubpb.ListTopicSubscriptionsRequest{Topic: topic, PageSize: pageSize, PageToken: token})
		tg, live := r.m.topics[topic]
		_ = tg
		if !live {
			r.expect("list-topic-subscriptions-dead-topic", "ListTopicSubscriptions("+topic+") [not live]", err, codes.NotFound)
			return
		}
		if err != nil {
			r.v("list-error:topic-subscriptions", "ListTopicSubscriptions(%s) page size %d failed: %v", topic, pageSize, err)
			return
		}
		got = append(got, resp.Subscriptions...)
		if resp.NextPageToken == "" || pages > 200 {
			break
		}
		token = resp.NextPageToken
	}
	var want []string
	for n, s := range r.m.subs {
		if s.topic == topic && s.tgen == r.m.topics[topic] {
			want = append(want, n)
		}
	}
	sort.Strings(got)
	sort.Strings(want)
	r.trace = append(r.trace, fmt.Sprintf("list-topic-subscriptions %s page=%d -> %d items", topic, pageSize, len(got)))
	if strings.Join(got, "\n") != strings.Join(want, "\n") {
		r.v("list:topic-subscriptions", "ListTopicSubscriptions(%s) with page size %d returned %v, the live subscriptions attached to the live topic are %v", topic, pageSize, got, want)
	}
	r.col.Add("ev_list_walks", 1)
}

func TestC12(t *testing.T) {
	cfg := evd.Env()
	col := evd.New("C12", cfg)
	defer col.Flush()
	n := cfg.N(240, 40000)
	var ops int64
	for i := 0; i < n; i++ {
		seed := cfg.CaseSeed("C12", i)
		if !cfg.Want(i, seed) {
			continue
		}
		rig.SetWatchdogContext(fmt.Sprintf("C12 case %d", i))
		rig.RunCase(t, seed, rig.Opts{Tick: time.Microsecond}, func(e *rig.Env) {
			rr := e.Rand
			run := &c12Run{e: e, col: col, seed: seed, m: &c12Model{topics: map[string]int{}, subs: map[string]*c12Sub{}, snaps: map[string]string{}, gen: map[string]int{}}}
			m := run.m
			// a few projects and ids per case keep collisions frequent
			projs := []string{c12Projects[rr.Intn(len(c12Projects))], c12Projects[rr.Intn(len(c12Projects))], "p"}
			if rr.Intn(2) == 0 {
				projs = append(projs, "P")
			}
			ids := []string{c12IDs[rr.Intn(len(c12IDs))], c12IDs[rr.Intn(len(c12IDs))], "a", "A", "ab"}
			pick := func(kind string) string {
				return name(kind, projs[rr.Intn(len(projs))], ids[rr.Intn(len(ids))])
			}
			liveTopic := func() string {
				var l []string
				for n := range m.topics {
					l = append(l, n)
				}
				sort.Strings(l)
				if len(l) == 0 {
					return pick("topics")
				}
				return l[rr.Intn(len(l))]
			}
			liveSub := func() string {
				var l []string
				for n := range m.subs {
					l = append(l, n)
				}
				sort.Strings(l)
				if len(l) == 0 {
					return pick("subscriptions")
				}
				return l[rr.Intn(len(l))]
			}
			steps := 40 + rr.Intn(90)
			for s := 0; s < steps && run.viol == 0; s++ {
				ops++
				switch a := rr.Intn(100); {
				case a < 16: // create topic
					tn := pick("topics")
					_, err := e.Pub.CreateTopic(e.Ctx, &pubsubpb.Topic{Name: tn, Labels: map[string]string{"g": fmt.Sprint(m.gen[tn] + 1)}})
					if _, live := m.topics[tn]; live {
						run.expect("create-existing-topic", "CreateTopic("+tn+") [live]", err, codes.AlreadyExists)
					} else if run.expect("create-new-topic", "CreateTopic("+tn+") [free]", err, codes.OK) {
						m.gen[tn]++
						m.topics[tn] = m.gen[tn]
					}
				case a < 24: // delete topic
					tn := pick("topics")
					if rr.Intn(2) == 0 {
						tn = liveTopic()
					}
					_, err := e.Pub.DeleteTopic(e.Ctx, &pubsubpb.DeleteTopicRequest{Topic: tn})
					if _, live := m.topics[tn]; live {
						if run.expect("delete-live-topic", "DeleteTopic("+tn+") [live]", err, codes.OK) {
							delete(m.topics, tn)
							for sn, st := range m.snaps {
								if st == tn {
									delete(m.snaps, sn)
								}
							}
						}
					} else {
						run.expect("delete-dead-topic", "DeleteTopic("+tn+") [not live]", err, codes.NotFound)
					}
				case a < 30: // get topic
					tn := pick("topics")
					got, err := e.Pub.GetTopic(e.Ctx, &pubsubpb.GetTopicRequest{Topic: tn})
					if g, live := m.topics[tn]; live {
						if run.expect("get-live-topic", "GetTopic("+tn+") [live]", err, codes.OK) {
							if got.Name != tn || got.Labels["g"] != fmt.Sprint(g) {
								run.v("topic-inherits-predecessor", "GetTopic(%s) returned name %q labels %v, expected generation %d", tn, got.Name, got.Labels, g)
							}
						}
					} else {
						run.expect("get-dead-topic", "GetTopic("+tn+") [not live]", err, codes.NotFound)
					}
				case a < 44: // create subscription
					sn, tn := pick("subscriptions"), liveTopic()
					if rr.Intn(8) == 0 {
						tn = pick("topics")
					}
					lab := map[string]string{"g": fmt.Sprint(m.gen[sn] + 1)}
					req := &pubsubpb.Subscription{Name: sn, Topic: tn, Labels: lab}
					if rr.Intn(2) == 0 {
						req.Filter = `attributes:x`
						req.EnableMessageOrdering = true
					}
					_, err := e.Sub.CreateSubscription(e.Ctx, req)
					_, sl := m.subs[sn]
					tg, tl := m.topics[tn]
					switch {
					case sl:
						run.expect("create-existing-subscription", "CreateSubscription("+sn+") [live]", err, codes.AlreadyExists)
					case !tl:
						run.expect("create-subscription-no-topic", "CreateSubscription("+sn+" on dead "+tn+")", err, codes.NotFound)
					default:
						if run.expect("create-new-subscription", "CreateSubscription("+sn+") [free]", err, codes.OK) {
							m.gen[sn]++
							m.subs[sn] = &c12Sub{gen: m.gen[sn], topic: tn, tgen: tg, labels: lab, expect: map[string]bool{}}
							if req.Filter != "" {
								m.subs[sn].labels = map[string]string{"g": lab["g"], "filter": "1"}
							}
						}
					}
				case a < 52: // delete subscription
					sn := pick("subscriptions")
					if rr.Intn(2) == 0 {
						sn = liveSub()
					}
					_, err := e.Sub.DeleteSubscription(e.Ctx, &pubsubpb.DeleteSubscriptionRequest{Subscription: sn})
					if _, live := m.subs[sn]; live {
						if run.expect("delete-live-subscription", "DeleteSubscription("+sn+") [live]", err, codes.OK) {
							delete(m.subs, sn)
						}
					} else {
						run.expect("delete-dead-subscription", "DeleteSubscription("+sn+") [not live]", err, codes.NotFound)
					}
				case a < 60: // get subscription: live exactly, and nothing inherited
					sn := pick("subscriptions")
					got, err := e.Sub.GetSubscription(e.Ctx, &pubsubpb.GetSubscriptionRequest{Subscription: sn})
					if ms, live := m.subs[sn]; live {
						if run.expect("get-live-subscription", "GetSubscription("+sn+") [live]", err, codes.OK) {
							wantFilter := ""
							if ms.labels["filter"] == "1" {
								wantFilter = `attributes:x`
							}
							wantTopic := ms.topic
							if g, ok := m.topics[ms.topic]; !ok || g != ms.tgen {
								wantTopic = "_deleted-topic_"
							}
							if got.Name != sn || got.Labels["g"] != fmt.Sprint(ms.gen) || got.Filter != wantFilter || got.EnableMessageOrdering != (wantFilter != "") || got.Topic != wantTopic {
								run.v("subscription-inherits-predecessor", "GetSubscription(%s) = {labels %v filter %q ordered %v topic %q}, expected generation %d filter %q topic %q", sn, got.Labels, got.Filter, got.EnableMessageOrdering, got.Topic, ms.gen, wantFilter, wantTopic)
							}
						}
					} else {
						run.expect("get-dead-subscription", "GetSubscription("+sn+") [not live]", err, codes.NotFound)
					}
				case a < 67: // publish + backlog check: a re-created subscription inherits nothing
					tn := liveTopic()
					resp, err := e.Pub.Publish(e.Ctx, &pubsubpb.PublishRequest{Topic: tn, Messages: []*pubsubpb.PubsubMessage{{Data: []byte(`1`), Attributes: map[string]string{"x": "1"}}}})
					if tg, live := m.topics[tn]; live {
						if run.expect("publish-live-topic", "Publish("+tn+")", err, codes.OK) {
							for _, s := range m.subs {
								if s.topic == tn && s.tgen == tg {
									s.expect[resp.MessageIds[0]] = true
								}
							}
						}
					} else {
						run.expect("publish-dead-topic", "Publish("+tn+") [not live]", err, codes.NotFound)
					}
				case a < 74: // pull everything outstanding on a live subscription
					sn := liveSub()
					resp, err := e.Sub.Pull(e.Ctx, &pubsubpb.PullRequest{Subscription: sn, MaxMessages: 1000, ReturnImmediately: true})
					if ms, live := m.subs[sn]; live {
						if run.expect("pull-live-subscription", "Pull("+sn+")", err, codes.OK) {
							var ack []string
							for _, rm := range resp.ReceivedMessages {
								if !ms.expect[rm.Message.MessageId] {
									run.v("recreated-subscription-inherits-backlog", "Pull(%s) (generation %d on %s) returned message %s that was not published to its topic generation while it existed", sn, ms.gen, ms.topic, rm.Message.MessageId)
								}
								ack = append(ack, rm.AckId)
								delete(ms.expect, rm.Message.MessageId)
							}
							if len(ack) > 0 {
								e.Sub.Acknowledge(e.Ctx, &pubsubpb.AcknowledgeRequest{Subscription: sn, AckIds: ack})
							}
						}
					} else {
						run.expect("pull-dead-subscription", "Pull("+sn+") [not live]", err, codes.NotFound)
					}
				case a < 80: // create snapshot
					xn, sn := pick("snapshots"), liveSub()
					_, err := e.Sub.CreateSnapshot(e.Ctx, &pubsubpb.CreateSnapshotRequest{Name: xn, Subscription: sn})
					_, xl := m.snaps[xn]
					ms, sl := m.subs[sn]
					switch {
					case xl:
						run.expect("create-existing-snapshot", "CreateSnapshot("+xn+") [exists]", err, codes.AlreadyExists)
					case !sl:
						run.expect("create-snapshot-no-subscription", "CreateSnapshot("+xn+" of dead "+sn+")", err, codes.NotFound)
					default:
						if g, ok := m.topics[ms.topic]; !ok || g != ms.tgen {
							// the subscription outlived its topic: snapshots belong to a
							// topic and cannot be taken any more
							run.expect("create-snapshot-deleted-topic", "CreateSnapshot("+xn+" of "+sn+" whose topic is deleted)", err, codes.NotFound)
						} else if run.expect("create-new-snapshot", "CreateSnapshot("+xn+") [free]", err, codes.OK) {
							m.snaps[xn] = ms.topic
						}
					}
				case a < 84: // get / delete snapshot
					xn := pick("snapshots")
					if rr.Intn(2) == 0 {
						_, err := e.Sub.GetSnapshot(e.Ctx, &pubsubpb.GetSnapshotRequest{Snapshot: xn})
						if _, ok := m.snaps[xn]; ok {
							run.expect("get-live-snapshot", "GetSnapshot("+xn+") [exists]", err, codes.OK)
						} else {
							run.expect("get-dead-snapshot", "GetSnapshot("+xn+") [absent]", err, codes.NotFound)
						}
					} else {
						_, err := e.Sub.DeleteSnapshot(e.Ctx, &pubsubpb.DeleteSnapshotRequest{Snapshot: xn})
						if _, ok := m.snaps[xn]; ok {
							if run.expect("delete-live-snapshot", "DeleteSnapshot("+xn+") [exists]", err, codes.OK) {
								delete(m.snaps, xn)
							}
						} else {
							run.expect("delete-dead-snapshot", "DeleteSnapshot("+xn+") [absent]", err, codes.NotFound)
						}
					}
				case a < 92: // list walk
					kind := []string{"topics", "subscriptions", "snapshots"}[rr.Intn(3)]
					run.listWalk(kind, projs[rr.Intn(len(projs))], []int32{1, 2, 3, 7, 100, 0, -1}[rr.Intn(7)])
				default: // subscriptions of one topic
					tn := pick("topics")
					if rr.Intn(3) > 0 {
						tn = liveTopic()
					}
					run.topicSubsWalk(tn, []int32{1, 2, 3, 100, 0, -1}[rr.Intn(6)])
				}
			}
			// final: every kind, every project of the case, small and default pages
			for _, kind := range []string{"topics", "subscriptions", "snapshots"} {
				for _, p := range projs {
					if run.viol == 0 {
						run.listWalk(kind, p, []int32{1, 2, 0}[rr.Intn(3)])
					}
				}
			}
			col.Case(evd.FP(strings.Join(run.trace, ";")), len(run.trace) > 10)
			if i < 2 {
				tr := run.trace
				if len(tr) > 30 {
					tr = tr[:30]
				}
				col.Sample(map[string]any{"projects": projs, "ids": ids, "first_operations": tr})
			}
		})
	}
	col.Add("ev_operations", ops)
	col.Add("relevant_events", ops)
}

// TestC12race: several creators of one name race; exactly one wins.
func TestC12race(t *testing.T) {
	cfg := evd.Env()
	col := evd.New("C12", cfg)
	defer col.Flush()
	n := cfg.N(160, 16000)
	var races int64
	for i := 0; i < n; i++ {
		seed := cfg.CaseSeed("C12race", i)
		if !cfg.Want(i, seed) {
			continue
		}
		rig.RunCase(t, seed, rig.Opts{}, func(e *rig.Env) {
			rr := e.Rand
			lr := &lockedRand{r: rand.New(rand.NewSource(seed ^ 0x7e57))}
			kind := []string{"topic", "subscription", "snapshot"}[i%3]
			mkTopic(e, "projects/p/topics/base")
			mkSub(e, &pubsubpb.Subscription{Name: "projects/p/subscriptions/base", Topic: "projects/p/topics/base"})
			seam.C.SetBoundaryDelays(func(actor string) time.Duration {
				if strings.HasPrefix(actor, "c") {
					return time.Duration(lr.Intn(3)) * time.Millisecond
				}
				return 0
			}, nil)
			k := 2 + rr.Intn(3)
			codesGot := make([]codes.Code, k)
			var wg sync.WaitGroup
			for j := 0; j < k; j++ {
				wg.Add(1)
				go func(j int) {
					defer wg.Done()
					ctx := e.Actor(fmt.Sprintf("c%d", j))
					var err error
					switch kind {
					case "topic":
						_, err = e.Pub.CreateTopic(ctx, &pubsubpb.Topic{Name: "projects/p/topics/raced"})
					case "subscription":
						_, err = e.Sub.CreateSubscription(ctx, &pubsubpb.Subscription{Name: "projects/p/subscriptions/raced", Topic: "projects/p/topics/base"})
					default:
						_, err = e.Sub.CreateSnapshot(ctx, &pubsubpb.CreateSnapshotRequest{Name: "projects/p/snapshots/raced", Subscription: "projects/p/subscriptions/base"})
					}
					codesGot[j] = status.Code(err)
				}(j)
			}
			wg.Wait()
			seam.C.SetBoundaryDelays(nil, nil)
			ok, exists := 0, 0
			for _, c := range codesGot {
				switch c {
				case codes.OK:
					ok++
				case codes.AlreadyExists:
					exists++
				}
			}
			races++
			if ok != 1 || ok+exists != k {
				col.Violation("racing-creators:"+kind, fmt.Sprintf("%d concurrent creates of one %s name answered %v (exactly one OK and the rest AlreadyExists expected)", k, kind, codesGot), map[string]any{"case_seed": seed, "kind": kind, "codes": fmt.Sprint(codesGot)})
			}
			// and exactly one row is live
			d := must(rig.TakeDump(e.RawDB()))
			live := 0
			switch kind {
			case "topic":
				for _, r := range d["topics"] {
					if r["name"] == "projects/p/topics/raced" && r["deleted_at"] == "NULL" {
						live++
					}
				}
			case "subscription":
				for _, r := range d["subscriptions"] {
					if r["name"] == "projects/p/subscriptions/raced" && r["deleted_at"] == "NULL" {
						live++
					}
				}
			default:
				for _, r := range d["snapshots"] {
					if r["name"] == "projects/p/snapshots/raced" {
						live++
					}
				}
			}
			if live != 1 {
				col.Violation("racing-creators-rows:"+kind, fmt.Sprintf("%d concurrent creates of one %s name left %d live rows", k, kind, live), map[string]any{"case_seed": seed})
			}
			col.Case(evd.FP(kind, k, fmt.Sprint(codesGot)), true)
		})
	}
	col.Add("ev_racing_create_groups", races)
	col.Add("relevant_events", races)
}
