package rigv

import (
	"context"
	"fmt"
	"strings"
	"sync"
	"testing"
	"time"

	"go.6river.tech/mmmbbb/actions"
	"go.6river.tech/mmmbbb/services"

	"verif/harness/seam"

	"verif/harness/evd"
	"verif/harness/hist"
	"verif/harness/rig"
)

// C15: background pruning is invisible to clients and converges.
//  (a) every job's row diff is checked against the job's documented criterion
//  (b) twin runs: the same seeded history with and without the prune jobs
//      spliced in must give the same client-visible trace
//  (c) from an all-dead state repeated rounds of the jobs reclaim everything

func clientTrace(w *hist.World) []string {
	var out []string
	for _, o := range w.Ops {
		if o.Op == "job" || o.Op == "job-skipped" {
			if strings.HasPrefix(o.Args, hist.ExpireJob) {
				out = append(out, o.Op+" "+o.Args+" "+o.Res)
			}
			continue
		}
		if o.Op == "jump" {
			// how far to jump is computed from "now", which a job's statements move
			// by microseconds; where the jump lands is what later steps observe
			continue
		}
		out = append(out, fmt.Sprintf("%s|%s|%s|%s", o.Op, o.Args, o.Res, o.Obs))
	}
	return out
}

// seekThenPrune: what a seek to a time settles is settled *now*, whatever the time
// it names: the completed-deliveries pruner, run with an age threshold right after
// such a seek into the past, has nothing of it to remove yet. (One directed step at
// the end of every job history; the job's row diff is held against the model's
// record of when the client call settled each delivery.)
func seekThenPrune(w *hist.World) {
	var names []string
	for n, s := range w.Subs {
		if !s.Wild && s.Topic.Live {
			names = append(names, n)
		}
	}
	if len(names) == 0 {
		return
	}
	sortStr(names)
	s := w.Subs[names[0]]
	w.Publish(s.Topic.Name, []hist.PubMsg{{Data: []byte(`{"seek-then-prune":1}`)}, {Data: []byte(`{"seek-then-prune":2}`)}})
	w.Pull(s.Name, 1000)
	w.Jump(2 * time.Hour)
	w.SeekTime(s.Name, time.Now().Add(-90*time.Minute))
	w.RunJob("prune-completed-deliveries", time.Hour, 100)
	w.RunJob("prune-completed-deliveries", time.Second, 100)
}

func converge(w *hist.World, g *hist.Gen) {
	seekThenPrune(w)
	// make everything dead: delete all subscriptions and topics
	var subs, topics []string
	for n := range w.Subs {
		subs = append(subs, n)
	}
	for n := range w.Topics {
		topics = append(topics, n)
	}
	sortStr(subs)
	sortStr(topics)
	for _, n := range subs {
		w.DeleteSub(n)
	}
	for _, n := range topics {
		w.DeleteTopic(n)
	}
	// far enough that every subscription's TTL has passed too: the expiration
	// job is one of the maintenance jobs and takes part in the rounds
	w.Jump(40*24*time.Hour + 2*time.Hour)
	d := must(rig.TakeDump(w.E.RawDB()))
	rows := len(d["deliveries"]) + len(d["messages"]) + len(d["subscriptions"]) + len(d["topics"])
	rounds := rows + 2
	r := w.R
	lastErr := map[string]string{}
	done := 0
	jobs := append(append([]string{}, hist.PruneJobs...), hist.ExpireJob)
	// every age threshold below the 40 days that have passed must do; half of
	// the cases never use 0, so that a job which keeps refreshing the age of
	// dead rows cannot hide behind a zero threshold
	ages := []time.Duration{0, time.Second, time.Hour}
	if r.Intn(2) == 0 {
		ages = []time.Duration{time.Second, time.Hour, 24 * time.Hour}
	}
	for i := 0; i < rounds; i++ {
		order := r.Perm(len(jobs))
		deleted := 0
		lastErr = map[string]string{}
		for _, j := range order {
			n, err := w.RunJob(jobs[j], ages[r.Intn(3)], []int{1, 2, 100}[r.Intn(3)])
			if jobs[j] == hist.ExpireJob && n > 0 {
				w.Violate("C15", "expire-job-works-on-dead-state", "with every subscription deleted, %s reported %d deletions in convergence round %d", jobs[j], n, i)
			}
			deleted += n
			if err != nil {
				lastErr[jobs[j]] = err.Error()
			}
		}
		done = i + 1
		if deleted == 0 && len(lastErr) == 0 {
			break
		}
	}
	d = must(rig.TakeDump(w.E.RawDB()))
	var left []string
	if n := len(d["deliveries"]); n > 0 {
		left = append(left, fmt.Sprintf("%d deliveries", n))
	}
	if n := len(d["messages"]); n > 0 {
		left = append(left, fmt.Sprintf("%d messages", n))
	}
	ds, dt := 0, 0
	for _, s := range d["subscriptions"] {
		if s["deleted_at"] != "NULL" {
			ds++
		}
	}
	for _, t := range d["topics"] {
		if t["deleted_at"] != "NULL" {
			dt++
		}
	}
	if ds > 0 {
		left = append(left, fmt.Sprintf("%d soft-deleted subscriptions", ds))
	}
	if dt > 0 {
		left = append(left, fmt.Sprintf("%d soft-deleted topics", dt))
	}
	w.Stats["convergence_rounds"] += int64(done)
	w.Stats["convergence_rows_at_start"] += int64(rows)
	if len(left) > 0 || len(lastErr) > 0 {
		pins := ""
		if n := len(d["snapshots"]); n > 0 {
			pins = fmt.Sprintf(" (%d snapshot rows remain)", n)
		}
		sig := "does-not-converge"
		if len(d["snapshots"]) > 0 {
			sig += ":snapshot-pins-deleted-topic"
		}
		w.Violate("C15", sig, "after everything was deleted and %d rounds of all prune jobs (age > 40 days): left behind %v; job errors in the last round: %v%s", done, left, lastErr, pins)
	}
}

// convergePinned is the convergence clause from a state in which only part of
// the world is dead: some subscriptions and topics are kept alive, and what they
// need (their topic's row even if that topic was deleted, a deleted dead-letter
// topic they still name, their outstanding deliveries and those deliveries'
// messages) must stay - while everything dead that nothing live needs must still
// be reclaimed. One batch size is used for the whole case (an operator configures
// one): a job whose batch can be filled by rows it then does not remove would
// starve the reclaimable rows behind them.
func convergePinned(w *hist.World, g *hist.Gen) {
	seekThenPrune(w)
	r := w.R
	var subs, topics []string
	for n := range w.Subs {
		subs = append(subs, n)
	}
	for n := range w.Topics {
		topics = append(topics, n)
	}
	sortStr(subs)
	sortStr(topics)
	// a third of the cases first add the one constellation the rest of the history rarely
	// leaves behind: a message dead-lettered from a subscription and a topic that are
	// about to die completely, still unacknowledged on a live subscription of a live
	// dead-letter topic (a forwarded message keeps belonging to its original topic)
	planted := ""
	if r.Intn(3) == 0 {
		tx, dx := "projects/p/topics/zz-src", "projects/p/topics/zz-dead"
		sx, qx := "projects/p/subscriptions/zz-src", "projects/p/subscriptions/zz-dead"
		w.CreateTopic(tx)
		w.CreateTopic(dx)
		w.CreateSub(hist.SubSpec{Name: qx, Topic: dx})
		w.CreateSub(hist.SubSpec{Name: sx, Topic: tx, DLTopic: dx, MaxAttempts: 1, MinB: time.Second, MaxB: time.Second})
		w.Publish(tx, []hist.PubMsg{{Data: []byte(`{"planted":1}`)}, {Data: []byte(`{"planted":2}`)}})
		var ids []string
		for _, rm := range w.Pull(sx, 10) {
			ids = append(ids, rm.AckId)
		}
		if len(ids) > 0 {
			w.ModAck(sx, ids, 0)
		}
		w.Jump(10 * time.Millisecond)
		w.Pull(sx, 10) // retires them (one delivery each) and forwards them
		planted = tx
		subs = append(subs, sx, qx)
		topics = append(topics, tx, dx)
		sortStr(subs)
		sortStr(topics)
	}
	// per topic: everything about it dies (the topic and all its subscriptions), only
	// the topic dies, only some subscriptions die, or nothing does - so that wholly
	// dead topics sit next to live ones that may still hold what was forwarded to them
	mode := map[string]int{}
	for _, n := range topics {
		mode[n] = r.Intn(5)
	}
	if planted != "" {
		mode[planted], mode["projects/p/topics/zz-dead"] = 0, 4
	}
	for _, n := range subs {
		s := w.Subs[n]
		if s == nil {
			continue
		}
		switch mode[s.Topic.Name] {
		case 0, 1:
			w.DeleteSub(n)
		case 3:
			if r.Intn(2) == 0 {
				w.DeleteSub(n)
			}
		}
	}
	for _, n := range topics {
		if mode[n] <= 2 {
			w.DeleteTopic(n)
		}
	}
	w.Jump(2*24*time.Hour + time.Hour)
	start := time.Now()
	d := must(rig.TakeDump(w.E.RawDB()))
	rows := len(d["deliveries"]) + len(d["messages"]) + len(d["subscriptions"]) + len(d["topics"])
	rounds := rows + 2
	batch := []int{1, 1, 2, 100}[r.Intn(4)]
	ages := []time.Duration{time.Second, time.Hour, 24 * time.Hour}
	lastErr := map[string]string{}
	done := 0
	for i := 0; i < rounds; i++ {
		order := r.Perm(len(hist.PruneJobs))
		deleted := 0
		lastErr = map[string]string{}
		for _, j := range order {
			n, err := w.RunJob(hist.PruneJobs[j], ages[r.Intn(3)], batch)
			deleted += n
			if err != nil {
				lastErr[hist.PruneJobs[j]] = err.Error()
			}
		}
		done = i + 1
		if deleted == 0 && len(lastErr) == 0 {
			break
		}
	}
	// what must be gone: decided from the final rows alone, with a margin that
	// keeps anything that became dead during the rounds out of the claim
	d = must(rig.TakeDump(w.E.RawDB()))
	old := start.Add(-25 * time.Hour)
	oldT := func(v string) bool {
		t, err := time.Parse(time.RFC3339Nano, v)
		return err == nil && t.Before(old)
	}
	goSub := map[string]bool{}
	for _, s := range d["subscriptions"] {
		if oldT(s["deleted_at"]) {
			goSub[s["id"]] = true
		}
	}
	goDel := map[string]bool{}
	delsOfMsg := map[string]int{}
	stayDelsOfMsg := map[string]int{}
	stayDelsOfSub := map[string]int{}
	for _, x := range d["deliveries"] {
		exp, err := time.Parse(time.RFC3339Nano, x["expires_at"])
		gone := goSub[x["subscription_id"]] || oldT(x["completed_at"]) || (err == nil && exp.Before(start))
		delsOfMsg[x["message_id"]]++
		if gone {
			goDel[x["id"]] = true
		} else {
			stayDelsOfMsg[x["message_id"]]++
			stayDelsOfSub[x["subscription_id"]]++
		}
	}
	var left []string
	count := func(what string, n int) {
		if n > 0 {
			left = append(left, fmt.Sprintf("%d %s", n, what))
		}
	}
	count("reclaimable deliveries", len(goDel))
	nm := 0
	for _, m := range d["messages"] {
		if stayDelsOfMsg[m["id"]] == 0 && oldT(m["published_at"]) {
			nm++
		}
	}
	count("reclaimable messages", nm)
	ns := 0
	subOfTopic := map[string]int{}
	dlPin := map[string]int{}
	for _, s := range d["subscriptions"] {
		if goSub[s["id"]] && stayDelsOfSub[s["id"]] == 0 {
			ns++
			continue
		}
		subOfTopic[s["topic_id"]]++
		if s["deleted_at"] == "NULL" && s["dead_letter_topic_id"] != "NULL" {
			dlPin[s["dead_letter_topic_id"]]++
		}
	}
	count("reclaimable soft-deleted subscriptions", ns)
	// a message that stays (a delivery of it is still outstanding - possibly on a
	// subscription of another, live topic it was dead-lettered to) needs its topic's
	// row. The job that reclaims topics works in batches that fail as a whole on
	// such a row, so while one exists no claim is made about deleted topics at all
	// (the clause's premise - everything acknowledged, expired or deleted - does not
	// hold for them)
	msgPin := false
	topicDeleted := map[string]bool{}
	for _, t := range d["topics"] {
		if t["deleted_at"] != "NULL" {
			topicDeleted[t["id"]] = true
		}
	}
	for _, m := range d["messages"] {
		if stayDelsOfMsg[m["id"]] > 0 && topicDeleted[m["topic_id"]] {
			msgPin = true
		}
	}
	nt := 0
	for _, t := range d["topics"] {
		if oldT(t["deleted_at"]) && subOfTopic[t["id"]] == 0 && dlPin[t["id"]] == 0 {
			nt++
		}
	}
	if msgPin {
		nt = 0
		delete(lastErr, "prune-deleted-topics")
		w.Stats["pinned_convergence_topics_pinned_by_a_live_message"]++
	}
	if len(d["snapshots"]) > 0 {
		nt = 0 // a snapshot row pins its topic: the recorded finding of the full variant
	}
	count("reclaimable soft-deleted topics", nt)
	w.Stats["pinned_convergence_rounds"] += int64(done)
	w.Stats["pinned_convergence_rows_at_start"] += int64(rows)
	w.Stats["pinned_convergence_rows_kept"] += int64(len(d["deliveries"]) + len(d["messages"]) + len(d["subscriptions"]) + len(d["topics"]))
	if len(left) > 0 || len(lastErr) > 0 {
		w.Violate("C15", "does-not-converge:partly-live-state", "with part of the world kept alive, after %d rounds of all prune jobs (batch %d, everything dead for > 2 days) there is still %v that nothing live needs; job errors in the last round: %v", done, batch, left, lastErr)
	}
}

func sortStr(s []string) {
	for i := 1; i < len(s); i++ {
		for j := i; j > 0 && s[j] < s[j-1]; j-- {
			s[j], s[j-1] = s[j-1], s[j]
		}
	}
}

// startPruneServices runs the real prune service loops (their own tickers, in
// virtual time) for the duration of the case and returns a stop function.
func startPruneServices(w *hist.World) func() {
	ctx, cancel := context.WithCancel(seam.WithActor(w.E.T.Context(), "svc"))
	svcs := services.VerifNewServices(
		services.PruneCommonSettings{PruneCommonParams: actions.PruneCommonParams{MinAge: 2 * time.Second, MaxDelete: 3}, Interval: 45 * time.Second, Fuzz: 5 * time.Second, Backoff: 50 * time.Millisecond},
		services.DeadLetterSettings{})
	var wg sync.WaitGroup
	var started []services.Service
	for _, s := range svcs {
		if !strings.HasPrefix(s.Name(), "prune-") {
			continue // dead-lettering, expiry and push are client-visible by design
		}
		if err := s.Initialize(ctx, w.E.Client); err != nil {
			w.E.T.Fatalf("init %s: %v", s.Name(), err)
		}
		started = append(started, s)
		ready := make(chan struct{})
		wg.Add(1)
		go func(s services.Service) { defer wg.Done(); _ = s.Start(ctx, ready) }(s)
		<-ready
	}
	return func() {
		cancel()
		wg.Wait()
		for _, s := range started {
			_ = s.Cleanup(context.Background())
		}
	}
}

// TestC15svc: the same seeded history with the real prune *services* running
// in the background (their own tickers, small min age and batch) and without
// them must give the same client-visible trace.
func TestC15svc(t *testing.T) {
	cfg := evd.Env()
	col := evd.New("C15", cfg)
	defer col.Flush()
	sec, min := time.Second, time.Minute
	prof := hist.Profile{Name: "twin-services", Ops: 110, Topics: 2, Subs: 4, POrdered: 0, PFilter: 0.3, PDL: 0.3, PRetry: 0.6, ProbeOnly: true, NoTick: true,
		Retentions: []time.Duration{0, 10 * min, 20 * sec}, Keys: []string{""},
		W: weights(map[string]int{"job": 0, "expire-job": 0, "jump": 20, "jump-long": 0, "delete-sub": 3, "create-sub": 4, "delete-topic": 2, "create-topic": 2,
			"seek-time": 0, "seek-snapshot": 0, "snapshot": 2, "stream": 0, "pull-due": 10, "set-delay": 0})}
	n := cfg.N(120, 3000)
	var pairs, same, svcRows int64
	for i := 0; i < n; i++ {
		seed := cfg.CaseSeed("C15svc", i)
		if !cfg.Want(i, seed) {
			continue
		}
		scratch := evd.New("C15", cfg)
		var rowsPlain int
		plain := hist.RunHistoryOpt(t, scratch, "C15", prof, seed, nil, func(w *hist.World, g *hist.Gen) {
			d := must(rig.TakeDump(w.E.RawDB()))
			rowsPlain = len(d["deliveries"]) + len(d["messages"])
		})
		var stop func()
		var rowsBefore int
		with := hist.RunHistoryOpt(t, col, "C15", prof, seed,
			func(w *hist.World) { stop = startPruneServices(w) },
			func(w *hist.World, g *hist.Gen) {
				stop()
				d := must(rig.TakeDump(w.E.RawDB()))
				rowsBefore = len(d["deliveries"]) + len(d["messages"])
			})
		if rowsPlain > rowsBefore {
			svcRows += int64(rowsPlain - rowsBefore)
		}
		a, b := clientTrace(plain), clientTrace(with)
		pairs++
		diffAt := -1
		for k := 0; k < len(a) && k < len(b); k++ {
			if a[k] != b[k] {
				diffAt = k
				break
			}
		}
		if diffAt < 0 && len(a) != len(b) {
			diffAt = min2(len(a), len(b))
		}
		if diffAt >= 0 {
			get := func(x []string, k int) string {
				if k < len(x) {
					return x[k]
				}
				return "(end)"
			}
			col.Violation("twin-trace-differs:services", fmt.Sprintf("the same history (seed %d) gives a different client-visible trace when the real prune services run in the background; first difference at client step %d: without %q, with %q", seed, diffAt, get(a, diffAt), get(b, diffAt)),
				map[string]any{"case_seed": seed, "profile": "twin-services", "step": diffAt, "without_services": get(a, diffAt), "with_services": get(b, diffAt), "ops_with_services": with.Ops})
		} else {
			same++
		}
	}
	col.Add("ev_service_twin_pairs", pairs)
	col.Add("ev_service_twin_pairs_identical", same)
	col.Add("ev_rows_reclaimed_by_the_background_services", svcRows)
	col.Add("relevant_events", svcRows)
}

func min2(a, b int) int {
	if a < b {
		return a
	}
	return b
}

func TestC15(t *testing.T) {
	cfg := evd.Env()
	col := evd.New("C15", cfg)
	defer col.Flush()
	sec, min := time.Second, time.Minute
	twin := hist.Profile{Name: "twin", Ops: 120, Topics: 2, Subs: 4, POrdered: 0.4, PFilter: 0.3, PDL: 0.3, PRetry: 0.6, ProbeOnly: true,
		Retentions: []time.Duration{0, 10 * min, 20 * sec}, Keys: []string{"", "k1", "k2"},
		W: weights(map[string]int{"job": 45, "expire-job": 2, "jump-long": 2, "delete-sub": 3, "create-sub": 4, "delete-topic": 2, "create-topic": 2,
			"seek-time": 0, "seek-snapshot": 0, "snapshot": 2, "stream": 0, "pull-due": 10})}
	ps := profiles("C15")
	n := cfg.N(240, 6000)
	var twins, same int64
	for i := 0; i < n; i++ {
		seed := cfg.CaseSeed("C15", i)
		if !cfg.Want(i, seed) {
			continue
		}
		if i%2 == 0 {
			// (a) + (c): job-heavy history with row-diff checks, then convergence
			fin := converge
			if i%4 == 2 {
				fin = convergePinned
			}
			hist.RunHistoryOpt(t, col, "C15", ps[0], seed, func(w *hist.World) { w.CheckJobs = true }, fin)
			continue
		}
		// (b) twin pair
		scratch := evd.New("C15", cfg) // the job-free twin only provides the reference trace
		plain := hist.RunHistoryOpt(t, scratch, "C15", twin, seed, func(w *hist.World) { w.NoJobs = true; w.DiagPulls = true }, nil)
		spliced := hist.RunHistoryOpt(t, col, "C15", twin, seed, func(w *hist.World) { w.CheckJobs = true; w.DiagPulls = true }, nil)
		a, b := clientTrace(plain), clientTrace(spliced)
		twins++
		diffAt := -1
		for k := 0; k < len(a) && k < len(b); k++ {
			if a[k] != b[k] {
				diffAt = k
				break
			}
		}
		if diffAt < 0 && len(a) != len(b) {
			diffAt = len(a)
			if len(b) < diffAt {
				diffAt = len(b)
			}
		}
		if diffAt >= 0 {
			get := func(x []string, k int) string {
				if k < len(x) {
					return x[k]
				}
				return "(end)"
			}
			jobsBefore := 0
			for _, o := range spliced.Ops {
				if o.Op == "job" {
					jobsBefore++
				}
			}
			col.Violation("twin-trace-differs", fmt.Sprintf("the same history (seed %d) gives a different client-visible trace when prune jobs are spliced in; first difference at client step %d: without jobs %q, with jobs %q", seed, diffAt, get(a, diffAt), get(b, diffAt)),
				map[string]any{"case_seed": seed, "profile": "twin", "step": diffAt, "without_jobs": get(a, diffAt), "with_jobs": get(b, diffAt), "ops_with_jobs": spliced.Ops, "ops_without_jobs": plain.Ops})
		} else {
			same++
		}
	}
	col.Add("ev_twin_pairs", twins)
	col.Add("ev_twin_pairs_identical", same)
}
