package rigv

import (
	"fmt"
	"sort"
	"testing"
	"time"

	"google.golang.org/protobuf/types/known/timestamppb"

	"go.6river.tech/mmmbbb/grpc/pubsubpb"

	"verif/harness/evd"
	"verif/harness/rig"
)

// TestC13bulk: seek to a snapshot (and to a time) over long backlogs. The
// histories of TestC13 have tens of messages; whatever the snapshot or the seek
// does per batch, per page or behind a LIMIT only shows with hundreds or
// thousands of settled messages behind one old unacknowledged straggler. A case:
// publish a straggler, then N messages (N from 30 to 2600), pull and acknowledge
// all but the straggler and a few kept ones, take a snapshot (of this
// subscription, or let a sibling subscription of the topic seek to it), settle
// some of what was unacknowledged, publish and partly acknowledge a few more,
// seek, let every lease lapse, then drain by pulling and acknowledging until a
// pull comes back empty. Oracle, at the client boundary only: what the drain
// delivers is exactly (unacknowledged at the snapshot) + (published since), each
// once; for the seek to a time, exactly the messages published after that time.
func TestC13bulk(t *testing.T) {
	cfg := evd.Env()
	col := evd.New("C13", cfg)
	defer col.Flush()
	n := cfg.N(16, 96)
	var drained, revived, maxAcked int64
	for i := 0; i < n; i++ {
		seed := cfg.CaseSeed("C13bulk", i)
		if !cfg.Want(i, seed) {
			continue
		}
		rig.RunCase(t, seed, rig.Opts{Tick: time.Microsecond}, func(e *rig.Env) {
			r := e.Rand
			T := "projects/p/topics/t"
			mkTopic(e, T)
			S, S2 := "projects/p/subscriptions/s", "projects/p/subscriptions/sibling"
			mkSub(e, &pubsubpb.Subscription{Name: S, Topic: T})
			mkSub(e, &pubsubpb.Subscription{Name: S2, Topic: T})
			N := []int{30, 400, 990, 1010, 1100, 1600, 2600}[r.Intn(7)]
			if !cfg.Thorough() && N > 1700 {
				N = 1100
			}
			toTime := r.Intn(4) == 0
			viaSibling := !toTime && r.Intn(3) == 0
			seq := map[string]int{}
			pubAt := map[int]time.Time{}
			publish := func(k int) {
				for k > 0 {
					b := 1 + r.Intn(250)
					if b > k {
						b = k
					}
					var msgs []*pubsubpb.PubsubMessage
					for j := 0; j < b; j++ {
						msgs = append(msgs, &pubsubpb.PubsubMessage{Data: []byte(fmt.Sprintf(`{"n":%d}`, len(seq)+j))})
					}
					time.Sleep(time.Millisecond)
					lo := time.Now()
					resp := must(e.Pub.Publish(e.Ctx, &pubsubpb.PublishRequest{Topic: T, Messages: msgs}))
					for _, id := range resp.MessageIds {
						pubAt[len(seq)] = lo
						seq[id] = len(seq)
					}
					k -= b
					time.Sleep(time.Millisecond)
				}
			}
			publish(1) // the straggler
			publish(N)
			// pull everything on S; acknowledge all but the straggler and a few kept ones
			keep := map[int]bool{0: true}
			for j := r.Intn(4); j > 0; j-- {
				keep[1+r.Intn(N)] = true
			}
			if r.Intn(6) == 0 {
				delete(keep, 0) // no straggler: the snapshot's watermark sits late
			}
			unackedAtSnap := map[int]bool{}
			ackOf := map[int]string{}
			pullAll := func(sub string, ack func(int) bool) (got []int) {
				for round := 0; round < 40; round++ {
					resp := must(e.Sub.Pull(e.Ctx, &pubsubpb.PullRequest{Subscription: sub, MaxMessages: int32(200 + r.Intn(800)), ReturnImmediately: true}))
					if len(resp.ReceivedMessages) == 0 {
						return
					}
					var ids []string
					for _, rm := range resp.ReceivedMessages {
						q := seq[rm.Message.MessageId]
						got = append(got, q)
						if sub == S {
							ackOf[q] = rm.AckId
						}
						if ack(q) {
							ids = append(ids, rm.AckId)
						}
					}
					if len(ids) > 0 {
						must(e.Sub.Acknowledge(e.Ctx, &pubsubpb.AcknowledgeRequest{Subscription: sub, AckIds: ids}))
					}
				}
				return
			}
			first := pullAll(S, func(q int) bool { return !keep[q] })
			if len(first) != N+1 {
				col.ViolationFor("C01", "bulk:first-drain-incomplete", fmt.Sprintf("%d messages published, the first drain of a fresh subscription delivered %d", N+1, len(first)), map[string]any{"case_seed": seed})
				return
			}
			for q := range keep {
				unackedAtSnap[q] = true
			}
			if N+1-len(keep) > 1000 {
				maxAcked++
			}
			time.Sleep(5 * time.Millisecond)
			snap := "projects/p/snapshots/snap"
			var cut time.Time
			if toTime {
				// a time strictly between two publishes
				c := 1 + r.Intn(N)
				cut = pubAt[c].Add(-500 * time.Microsecond)
			} else {
				must(e.Sub.CreateSnapshot(e.Ctx, &pubsubpb.CreateSnapshotRequest{Name: snap, Subscription: S}))
			}
			time.Sleep(5 * time.Millisecond)
			// afterwards: settle some of what was unacknowledged, publish a few more, acknowledge some of those
			for q := range keep {
				if r.Intn(2) == 0 {
					must(e.Sub.Acknowledge(e.Ctx, &pubsubpb.AcknowledgeRequest{Subscription: S, AckIds: []string{ackOf[q]}}))
				}
			}
			since := 1 + r.Intn(5)
			publish(since)
			time.Sleep(11 * time.Minute) // every lease lapses
			pullAll(S, func(q int) bool { return q > N && r.Intn(2) == 0 })
			target := S
			if viaSibling {
				target = S2
			}
			req := &pubsubpb.SeekRequest{Subscription: target}
			if toTime {
				req.Target = &pubsubpb.SeekRequest_Time{Time: timestamppb.New(cut)}
			} else {
				req.Target = &pubsubpb.SeekRequest_Snapshot{Snapshot: snap}
			}
			must(e.Sub.Seek(e.Ctx, req))
			time.Sleep(11 * time.Minute)
			got := pullAll(target, func(int) bool { return true })
			want := map[int]bool{}
			if toTime {
				for q := 0; q <= N+since; q++ {
					if pubAt[q].After(cut) {
						want[q] = true
					}
				}
			} else {
				for q := range unackedAtSnap {
					want[q] = true
				}
				for q := N + 1; q <= N+since; q++ {
					want[q] = true
				}
			}
			seen := map[int]int{}
			for _, q := range got {
				seen[q]++
			}
			var extra, missing, twice []int
			for q, c := range seen {
				if !want[q] {
					extra = append(extra, q)
				}
				if c > 1 {
					twice = append(twice, q)
				}
			}
			for q := range want {
				if seen[q] == 0 {
					missing = append(missing, q)
				}
			}
			sort.Ints(extra)
			sort.Ints(missing)
			sort.Ints(twice)
			cut10 := func(v []int) []int {
				if len(v) > 10 {
					return v[:10]
				}
				return v
			}
			kind := "snapshot"
			if toTime {
				kind = "time"
			} else if viaSibling {
				kind = "snapshot-via-sibling"
			}
			desc := fmt.Sprintf("seek to %s after %d published / %d acknowledged before it (kept unacknowledged %d, published since %d)", kind, N+1, N+1-len(keep), len(keep), since)
			w := map[string]any{"case_seed": seed, "n": N, "kind": kind}
			if len(extra) > 0 {
				col.Violation("bulk:seek-to-"+kind+":revived-acknowledged", fmt.Sprintf("%s: the drain delivered %d messages that were acknowledged before the target (publish positions %v ...)", desc, len(extra), cut10(extra)), w)
			}
			if len(missing) > 0 {
				col.Violation("bulk:seek-to-"+kind+":revived-missing", fmt.Sprintf("%s: the drain did not deliver %d messages that must be outstanding after the seek (publish positions %v ...)", desc, len(missing), cut10(missing)), w)
			}
			if len(twice) > 0 {
				col.ViolationFor("C03", "bulk:acknowledged-delivered-again", fmt.Sprintf("%s: %d messages were delivered again after being acknowledged during the drain (%v ...)", desc, len(twice), cut10(twice)), w)
			}
			drained += int64(len(got))
			revived += int64(len(want))
			col.Case(evd.FP("bulk", kind, N, len(keep), since), len(want) > 0)
			if i < 2 {
				col.Sample(map[string]any{"kind": kind, "published": N + 1 + since, "expected_outstanding_after_seek": len(want), "delivered_by_drain": len(got)})
			}
		})
	}
	col.Add("ev_bulk_messages_drained_after_seek", drained)
	col.Add("ev_bulk_messages_expected_outstanding_after_seek", revived)
	col.Add("ev_bulk_cases_with_more_than_1000_messages_acknowledged_before_the_target", maxAcked)
	col.Add("relevant_events", revived)
}
