package rigv

import (
	"context"
	"fmt"
	"sort"
	"strings"
	"testing"
	"time"

	"google.golang.org/protobuf/types/known/durationpb"

	"go.6river.tech/mmmbbb/actions"
	"go.6river.tech/mmmbbb/grpc/pubsubpb"
	"go.6river.tech/mmmbbb/services"

	"verif/harness/evd"
	"verif/harness/ref"
	"verif/harness/rig"
	"verif/harness/seam"
)

// TestC06svc: the "background sweep" leg of C06 through the real dead-letter
// *service* (services/deadletter.go: its own ticker, batch size and catch-up
// rescheduling, in virtual time) instead of a direct call of the action.
//
// Per case: a source subscription with max_delivery_attempts N, two dead-letter
// subscriptions (one filtered), a control subscription without a policy. Every
// message gets a plan (how many deliveries, then ack / keep leased / let lapse).
// After the last pull round nobody pulls the source any more: whatever has had N
// deliveries and is not acknowledged must be forwarded by the service alone,
// within a bound computed from its settings, exactly once per matching
// dead-letter subscription, intact; nothing else may be forwarded, also not
// while the service keeps sweeping over due messages with fewer than N
// deliveries.
func TestC06svc(t *testing.T) {
	cfg := evd.Env()
	col := evd.New("C06", cfg)
	defer col.Flush()
	n := cfg.N(48, 1200)
	var forwards, svcOnly, heldBack, svcFaults int64
	for i := 0; i < n; i++ {
		seed := cfg.CaseSeed("C06svc", i)
		if !cfg.Want(i, seed) {
			continue
		}
		rig.SetWatchdogContext(fmt.Sprintf("C06svc case %d", i))
		rig.RunCase(t, seed, rig.Opts{}, func(e *rig.Env) {
			r := e.Rand
			set := services.DeadLetterSettings{
				DeadLetterDeliveriesParams: actions.DeadLetterDeliveriesParams{MaxDeliveries: []int{1, 2, 3, 100}[r.Intn(4)]},
				Interval:                   []time.Duration{10 * time.Second, 30 * time.Second}[r.Intn(2)],
				Fuzz:                       []time.Duration{time.Second, 5 * time.Second}[r.Intn(2)],
				Backoff:                    []time.Duration{50 * time.Millisecond, 500 * time.Millisecond}[r.Intn(2)],
			}
			ctx, cancel := context.WithCancel(e.Actor("svc"))
			var svc services.Service
			for _, s := range services.VerifNewServices(services.PruneCommonSettings{}, set) {
				if s.Name() == "dead-letter" {
					svc = s
				}
			}
			if svc == nil {
				t.Fatalf("no dead-letter service among %v", services.VerifServiceNames())
			}
			if err := svc.Initialize(ctx, e.Client); err != nil {
				t.Fatalf("init: %v", err)
			}
			ready := make(chan struct{})
			done := make(chan error, 1)
			go func() { done <- svc.Start(ctx, ready) }()
			<-ready

			N := 1 + r.Intn(3)
			src, dlt := "projects/p/topics/t", "projects/p/topics/dead"
			s, control := "projects/p/subscriptions/s", "projects/p/subscriptions/control"
			ds1, ds2 := "projects/p/subscriptions/dl-all", "projects/p/subscriptions/dl-kind-a"
			mkTopic(e, src)
			mkTopic(e, dlt)
			minB, maxB := 2*time.Second, 4*time.Second
			holdFor := 600 * time.Second // ModifyAckDeadline's maximum
			mkSub(e, &pubsubpb.Subscription{Name: s, Topic: src,
				DeadLetterPolicy: &pubsubpb.DeadLetterPolicy{DeadLetterTopic: dlt, MaxDeliveryAttempts: int32(N)},
				RetryPolicy:      &pubsubpb.RetryPolicy{MinimumBackoff: durationpb.New(minB), MaximumBackoff: durationpb.New(maxB)}})
			mkSub(e, &pubsubpb.Subscription{Name: control, Topic: src})
			mkSub(e, &pubsubpb.Subscription{Name: ds1, Topic: dlt})
			mkSub(e, &pubsubpb.Subscription{Name: ds2, Topic: dlt, Filter: `attributes.kind = "a"`})

			type msg struct {
				id, kind      string
				data          []byte
				attrs         map[string]string
				target        int    // deliveries on the source before the plan's end
				end           string // "ack" | "hold" (lease kept far in the future) | "lapse"
				count         int
				ackID         string
				acked, held   bool
				fwd           map[string]int // dead-letter subscription -> times received there
				fwdBeforeIdle bool
			}
			M := 3 + r.Intn(12)
			req := &pubsubpb.PublishRequest{Topic: src}
			var ms []*msg
			for k := 0; k < M; k++ {
				m := &msg{kind: []string{"a", "b"}[r.Intn(2)], data: []byte(fmt.Sprintf(`{"i":%d,"pad":"%s"}`, k, strings.Repeat("x", r.Intn(40)))), fwd: map[string]int{}}
				m.attrs = map[string]string{"kind": m.kind, "n": fmt.Sprint(k)}
				m.target = 1 + r.Intn(N)
				m.end = []string{"ack", "hold", "lapse", "lapse"}[r.Intn(4)]
				if m.target == N && m.end == "hold" {
					m.end = "lapse"
				}
				if m.target < N && m.end == "lapse" {
					m.end = "hold"
				}
				ms = append(ms, m)
				req.Messages = append(req.Messages, &pubsubpb.PubsubMessage{Data: m.data, Attributes: m.attrs})
			}
			resp := must(e.Pub.Publish(e.Ctx, req))
			byID := map[string]*msg{}
			for k, id := range resp.MessageIds {
				ms[k].id = id
				byID[id] = ms[k]
			}
			viol := func(sig, f string, a ...any) {
				col.Violation("service:"+sig, fmt.Sprintf("[N=%d batch=%d interval=%v fuzz=%v backoff=%v, %d messages] ", N, set.MaxDeliveries, set.Interval, set.Fuzz, set.Backoff, M)+fmt.Sprintf(f, a...),
					map[string]any{"case_seed": seed, "N": N, "messages": M, "settings": fmt.Sprintf("%+v", set)})
			}
			drainDL := func(beforeIdle bool) {
				for _, ds := range []string{ds1, ds2} {
					for {
						pr := must(e.Sub.Pull(e.Ctx, &pubsubpb.PullRequest{Subscription: ds, MaxMessages: 100, ReturnImmediately: true}))
						if len(pr.ReceivedMessages) == 0 {
							break
						}
						var ids []string
						for _, rm := range pr.ReceivedMessages {
							ids = append(ids, rm.AckId)
							m := byID[rm.Message.MessageId]
							if m == nil {
								viol("unknown-forward", "%s returned unknown message %s", ds, rm.Message.MessageId)
								continue
							}
							m.fwd[ds]++
							forwards++
							if beforeIdle {
								m.fwdBeforeIdle = true
							}
							if !ref.JSONEqual(rm.Message.Data, m.data) || !attrsEq(rm.Message.Attributes, m.attrs) {
								viol("content", "forwarded copy of %s on %s differs: data %q attrs %v, published %q %v", m.id[:8], ds, rm.Message.Data, rm.Message.Attributes, m.data, m.attrs)
							}
						}
						must(e.Sub.Acknowledge(e.Ctx, &pubsubpb.AcknowledgeRequest{Subscription: ds, AckIds: ids}))
					}
				}
			}
			var heldIDs []string
			lastHold := time.Now()
			// phase 1: pull rounds on the source
			for round := 0; round < N; round++ {
				pr := must(e.Sub.Pull(e.Ctx, &pubsubpb.PullRequest{Subscription: s, MaxMessages: 100, ReturnImmediately: true}))
				var acks, holds []string
				for _, rm := range pr.ReceivedMessages {
					m := byID[rm.Message.MessageId]
					if m == nil {
						viol("unknown-message", "source returned unknown message %s", rm.Message.MessageId)
						continue
					}
					m.count++
					m.ackID = rm.AckId
					if int(rm.DeliveryAttempt) != m.count {
						viol("attempt-number", "message %s: delivery_attempt %d on delivery number %d", m.id[:8], rm.DeliveryAttempt, m.count)
					}
					if m.count > N {
						viol("attempts-exceed-max", "message %s delivered %d times on the source, max_delivery_attempts %d", m.id[:8], m.count, N)
					}
					if m.acked || m.held {
						viol("delivered-while-settled", "message %s delivered again (acked=%v, lease held=%v)", m.id[:8], m.acked, m.held)
					}
					if m.count >= m.target {
						switch m.end {
						case "ack":
							acks = append(acks, rm.AckId)
							m.acked = true
						case "hold":
							holds = append(holds, rm.AckId)
							m.held = true
						}
					}
				}
				if len(acks) > 0 {
					must(e.Sub.Acknowledge(e.Ctx, &pubsubpb.AcknowledgeRequest{Subscription: s, AckIds: acks}))
				}
				if len(holds) > 0 {
					must(e.Sub.ModifyAckDeadline(e.Ctx, &pubsubpb.ModifyAckDeadlineRequest{Subscription: s, AckIds: holds, AckDeadlineSeconds: 600}))
					heldIDs = append(heldIDs, holds...)
					lastHold = time.Now()
				}
				if round < N-1 {
					time.Sleep(maxB + 2*time.Second) // every lease of this round lapses
					rig.Quiesce()
				}
			}
			drainDL(true)
			// phase 2: nobody pulls the source; the service alone has to forward
			var expect []*msg
			for _, m := range ms {
				if m.count >= N && !m.acked {
					expect = append(expect, m)
				}
			}
			// generous on purpose: one batch per regular interval, i.e. no credit is
			// taken for the catch-up rescheduling (how fast a backlog is worked off is
			// not part of the property; that it is worked off is)
			batches := (len(expect) + set.MaxDeliveries - 1) / set.MaxDeliveries
			bound := maxB + 2*time.Second + time.Duration(batches+2)*(set.Interval+set.Fuzz) + 5*time.Second
			// in a third of the cases one statement of the service fails during this
			// phase (a storage error): the sweep it belongs to is lost as a whole, the
			// service logs it and carries on at its regular interval
			faulted := r.Intn(3) == 0
			if faulted {
				seam.C.ResetCounts()
				seam.C.SetFault(&seam.Fault{Actor: "svc", K: 1 + r.Intn(14), Mode: seam.FaultError})
				bound += 2 * (set.Interval + set.Fuzz)
			}
			idleStart := time.Now()
			for time.Since(idleStart) < bound {
				time.Sleep(time.Second)
				rig.Quiesce()
				// keep the held leases alive through a long idle phase
				if len(heldIDs) > 0 && time.Since(lastHold) > holdFor/2 {
					must(e.Sub.ModifyAckDeadline(e.Ctx, &pubsubpb.ModifyAckDeadlineRequest{Subscription: s, AckIds: heldIDs, AckDeadlineSeconds: 600}))
					lastHold = time.Now()
				}
			}
			if faulted {
				if seam.C.FaultHits() > 0 {
					svcFaults++
				}
				seam.C.SetFault(nil)
			}
			drainDL(false)
			for _, m := range expect {
				if m.fwd[ds1] == 0 {
					viol("forward-missing", "message %s had %d deliveries (max %d), was not acknowledged, and the service did not forward it within %v of idling", m.id[:8], m.count, N, bound)
				} else if !m.fwdBeforeIdle {
					svcOnly++
				}
			}
			// phase 3: the held leases lapse; the service sweeps over due messages with
			// fewer than N deliveries for a while - they stay on the source
			time.Sleep(holdFor + 2*(set.Interval+set.Fuzz))
			rig.Quiesce()
			drainDL(false)
			for _, m := range ms {
				wantFwd := m.count >= N && !m.acked
				for _, ds := range []string{ds1, ds2} {
					want := 0
					if wantFwd && (ds == ds1 || m.kind == "a") {
						want = 1
					}
					got := m.fwd[ds]
					switch {
					case got > want && want == 1:
						viol("duplicate-forward", "message %s received %d times on %s", m.id[:8], got, ds)
					case got > want && m.acked:
						viol("forwarded-after-ack", "message %s was acknowledged on the source after %d deliveries and still arrived on %s", m.id[:8], m.count, ds)
					case got > want && !wantFwd:
						viol("forwarded-too-early", "message %s had only %d of %d deliveries and arrived on %s", m.id[:8], m.count, N, ds)
					case got > want:
						viol("filter-ignored", "message %s (kind %s) arrived on filtered %s", m.id[:8], m.kind, ds)
					case got < want && ds == ds2 && m.fwd[ds1] > 0:
						viol("forward-missing-on-filtered", "message %s (kind a) reached %s but not %s", m.id[:8], ds1, ds2)
					}
				}
			}
			// the held ones are still deliverable on the source, with the next attempt number
			pr := must(e.Sub.Pull(e.Ctx, &pubsubpb.PullRequest{Subscription: s, MaxMessages: 100, ReturnImmediately: true}))
			got := map[string]int{}
			for _, rm := range pr.ReceivedMessages {
				got[rm.Message.MessageId] = int(rm.DeliveryAttempt)
			}
			for _, m := range ms {
				a, ok := got[m.id]
				switch {
				case m.held && !ok:
					viol("lost-on-source", "message %s (%d of %d deliveries, lease lapsed) is no longer deliverable on the source", m.id[:8], m.count, N)
				case m.held && a != m.count+1:
					viol("attempt-number", "message %s: delivery_attempt %d after %d deliveries", m.id[:8], a, m.count)
				case !m.held && ok:
					viol("still-on-source", "message %s (acked=%v, %d of %d deliveries) is still delivered on the source", m.id[:8], m.acked, m.count, N)
				}
				if m.held && ok {
					heldBack++
				}
			}
			// the control subscription is untouched by any of this
			cr := must(e.Sub.Pull(e.Ctx, &pubsubpb.PullRequest{Subscription: control, MaxMessages: 100, ReturnImmediately: true}))
			if len(cr.ReceivedMessages) != M {
				viol("control-disturbed", "the subscription without a dead-letter policy returned %d of %d messages", len(cr.ReceivedMessages), M)
			}
			var plan []string
			for _, m := range ms {
				plan = append(plan, fmt.Sprintf("%s%d%s", m.kind, m.target, m.end[:1]))
			}
			sort.Strings(plan)
			col.Case(evd.FP(N, set.MaxDeliveries, set.Interval, set.Backoff, plan), len(expect) > 0)
			if i < 2 {
				col.Sample(map[string]any{"N": N, "settings": fmt.Sprintf("%+v", set), "plan": plan, "expected_forwards": len(expect)})
			}
			cancel()
			<-done
			_ = svc.Cleanup(context.Background())
			rig.Quiesce()
		})
	}
	col.Add("ev_service_forwards_observed", forwards)
	col.Add("ev_forwarded_by_service_alone", svcOnly)
	col.Add("ev_storage_errors_injected_into_the_service", svcFaults)
	col.Add("ev_held_back_below_max_attempts", heldBack)
	col.Add("relevant_events", forwards+heldBack)
}
