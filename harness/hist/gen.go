package hist

import (
	"fmt"
	"math/rand"
	"sort"
	"strings"
	"time"

	"github.com/google/uuid"
	"google.golang.org/grpc/codes"

	"go.6river.tech/mmmbbb/grpc/pubsubpb"

	"verif/harness/ref"
)

// Profile tunes the generator towards the histories a property quantifies over.
type Profile struct {
	Name       string
	Ops        int
	Topics     int
	Subs       int
	POrdered   float64
	PFilter    float64
	PDL        float64
	PRetry     float64
	Retentions []time.Duration
	TTLs       []time.Duration
	Keys       []string // ordering keys ("" = un-keyed)
	W          map[string]int
	Rich       bool // rich payload / attribute domains
	MaxAttempt []int32
	Decoy      bool
	ProbeOnly  bool // every pull is probe-sized (twin runs)
	// PublishFaultPct: this share of the publishes runs its first attempt with a
	// failing statement (the publisher retries after an error)
	PublishFaultPct int
	// CallFaultPct: the same for unary pulls and ModifyAckDeadline calls
	CallFaultPct int
	NoTick       bool // no per-statement clock tick (needed when background goroutines use the database)
}

var attrNames = []string{"a", "b", "kind"}
var attrVals = []string{"", "x", "xy", "y"}

// pickFilter draws a filter whose meaning is fully specified (or nil).
func pickFilter(r *rand.Rand) *ref.Node {
	n := attrNames[r.Intn(len(attrNames))]
	v := attrVals[r.Intn(len(attrVals))]
	basic := func() *ref.Node {
		switch r.Intn(4) {
		case 0:
			return ref.Has(attrNames[r.Intn(len(attrNames))])
		case 1:
			return ref.Eq(attrNames[r.Intn(len(attrNames))], attrVals[r.Intn(len(attrVals))])
		case 2:
			return ref.Prefix(attrNames[r.Intn(len(attrNames))], attrVals[r.Intn(len(attrVals))])
		}
		return ref.Not(ref.Has(attrNames[r.Intn(len(attrNames))]))
	}
	switch r.Intn(11) {
	case 8: // longer chains: every operand counts, not just the first two
		return ref.And(basic(), basic(), basic())
	case 9:
		return ref.And(ref.Has(n), basic(), basic(), basic())
	case 10:
		return ref.Or(ref.And(basic(), basic(), basic()), basic())
	case 0:
		return nil
	case 1:
		return ref.Has(n)
	case 2:
		return ref.Eq(n, v)
	case 3:
		return ref.Prefix(n, v)
	case 4:
		return ref.Not(ref.Eq(n, v))
	case 5:
		return ref.And(basic(), basic())
	case 6:
		return ref.Or(basic(), basic(), basic())
	}
	return ref.And(ref.Has(n), ref.Ne(n, v)) // != guarded by presence: specified
}

func pickAttrs(r *rand.Rand, rich bool) map[string]string {
	if r.Intn(5) == 0 {
		return nil
	}
	m := map[string]string{}
	for _, n := range attrNames {
		if r.Intn(2) == 0 {
			m[n] = attrVals[r.Intn(len(attrVals))]
		}
	}
	if rich {
		switch r.Intn(6) {
		case 0:
			m[""] = "empty-key"
		case 1:
			m["ünï"] = "çödé ✓"
		case 2:
			m["x y"] = "<>&\"'\\"
		case 3:
			for i := 0; i < 40; i++ {
				m[fmt.Sprintf("k%02d", i)] = strings.Repeat("v", i)
			}
		}
	}
	return m
}

var richPayloads = []string{
	`{}`, `[]`, `null`, `true`, `0`, `-0`, `1e400`, `9223372036854775808`, `1.0000000000000000000001`,
	`"plain"`, `"<script>&amp;</script>"`, `"é世界 😀"`, `"é世界"`, `"\\ \" \/ \b \f \n \r \t"`,
	` { "a" : 1 ,  "b" : [ 1 , 2 , { "c" : null } ] } `, "{\n\t\"k\": \"v\"\n}", `{"a":{"a":{"a":{"a":{"a":{"a":{"a":[[[[[[1]]]]]]}}}}}}}`,
	`{"dup":1,"dup":2}`, `{"":""}`, `[1,2.5,-3e-7,"x",false,null,{"k":[]}]`, `"\u0000"`, `{"html":"<a href=\"x\">&</a>"}`,
}

func pickPayload(r *rand.Rand, rich bool, i int) []byte {
	if rich {
		switch r.Intn(10) {
		case 0:
			return []byte(`"` + strings.Repeat("z", 1000+r.Intn(200000)) + `"`)
		case 1:
			return []byte(strings.Repeat("[", 50) + strings.Repeat("]", 50))
		default:
			return []byte(richPayloads[r.Intn(len(richPayloads))])
		}
	}
	return []byte(fmt.Sprintf(`{"n":%d}`, i))
}

// Gen drives one history.
type Gen struct {
	W *World
	P Profile
	R *rand.Rand
	n int

	topicNames []string
	subNames   []string
	snapNames  []string
	instants   []time.Time // instants between operations, usable as seek targets
	decoy      string
}

func NewGen(w *World, p Profile) *Gen {
	canonicalIDs = p.ProbeOnly // cases run one after the other in a process
	return &Gen{W: w, P: p, R: w.R}
}

func (g *Gen) pick(m map[string]int) string {
	keys := make([]string, 0, len(m))
	tot := 0
	for k, v := range m {
		if v > 0 {
			keys = append(keys, k)
			tot += v
		}
	}
	sort.Strings(keys)
	x := g.R.Intn(tot)
	for _, k := range keys {
		x -= m[k]
		if x < 0 {
			return k
		}
	}
	return keys[0]
}

func (g *Gen) liveSubs() []*Sub {
	var out []*Sub
	for _, n := range g.subNames {
		if s, ok := g.W.Subs[n]; ok && !s.Decoy {
			out = append(out, s)
		}
	}
	return out
}

func (g *Gen) liveTopics() []string {
	var out []string
	for _, n := range g.topicNames {
		if _, ok := g.W.Topics[n]; ok {
			out = append(out, n)
		}
	}
	return out
}

func (g *Gen) subSpec(name string) SubSpec {
	r, p := g.R, g.P
	lt := g.liveTopics()
	sp := SubSpec{Name: name}
	if len(lt) == 0 {
		sp.Topic = g.topicNames[0]
		return sp
	}
	sp.Topic = lt[r.Intn(len(lt))]
	if r.Float64() < p.PFilter {
		sp.Filter = pickFilter(r)
	}
	sp.Ordered = r.Float64() < p.POrdered
	if r.Float64() < p.PRetry {
		sp.MinB = []time.Duration{0, 200 * time.Millisecond, time.Second, 10 * time.Second, time.Hour}[r.Intn(5)]
		sp.MaxB = []time.Duration{0, 500 * time.Millisecond, 30 * time.Second, 10 * time.Minute, 6 * time.Hour}[r.Intn(5)]
	}
	if r.Float64() < p.PDL && len(lt) > 0 {
		sp.DLTopic = lt[r.Intn(len(lt))]
		ma := p.MaxAttempt
		if len(ma) == 0 {
			ma = []int32{1, 2, 3, 5}
		}
		sp.MaxAttempts = ma[r.Intn(len(ma))]
	}
	if len(p.Retentions) > 0 {
		sp.Retention = p.Retentions[r.Intn(len(p.Retentions))]
	}
	if len(p.TTLs) > 0 {
		sp.TTL = p.TTLs[r.Intn(len(p.TTLs))]
	}
	return sp
}

// Setup creates the initial topology.
func (g *Gen) Setup() {
	for i := 0; i < g.P.Topics; i++ {
		n := fmt.Sprintf("projects/p/topics/t%d", i)
		g.topicNames = append(g.topicNames, n)
		g.W.CreateTopic(n)
	}
	for i := 0; i < g.P.Subs; i++ {
		n := fmt.Sprintf("projects/p/subscriptions/s%d", i)
		g.subNames = append(g.subNames, n)
		g.W.CreateSub(g.subSpec(n))
	}
	if g.P.Decoy {
		g.decoy = "projects/p/subscriptions/decoy"
		g.W.CreateSub(SubSpec{Name: g.decoy, Topic: g.topicNames[0], Decoy: true})
	}
	g.mark()
}

func (g *Gen) mark() {
	// an instant strictly between two operation slots
	g.instants = append(g.instants, g.W.now().Add(3*time.Millisecond))
}

// settle jumps the clock out of any uncertainty window that would make the
// model lose track (dead-letter-eligible deliveries whose lease or retention
// ends "about now").
func (g *Gen) settle(subs []*Sub) {
	for iter := 0; iter < 4; iter++ {
		now := g.W.now().Add(12 * time.Millisecond) // where the next op will land at the latest
		var target time.Time
		for _, s := range subs {
			if !s.hasDL() {
				continue
			}
			for _, d := range s.Dels {
				if d.State != Out || !d.dlEligible() || d.Wild {
					continue
				}
				for _, iv := range []Iv{d.Lease, d.Exp} {
					if !iv.Lo.After(now) && iv.Hi.After(g.W.now()) && iv.Hi.After(target) {
						target = iv.Hi
					}
				}
			}
		}
		if target.IsZero() {
			return
		}
		g.W.Jump(target.Sub(g.W.now()) + 2*time.Millisecond)
	}
}

// avoidBoundaries (twin runs): never pull while a lease or retention boundary of
// the subscription may fall into the pull - whether the message is included
// would then depend on microseconds, which the two twins do not share. Jumps
// are decided from the model alone, so both twins take the same ones. (Not
// for profiles without the statement tick: their twins share one clock, and
// long jumps with the real prune services ticking in the background are slow -
// six services waking together queue up on SQLite's busy handler, which sleeps
// in real time.)
func (g *Gen) avoidBoundaries(s *Sub) {
	const margin = 3 * time.Millisecond
	for iter := 0; iter < 8; iter++ {
		lo := g.W.now().Add(-margin)
		hi := g.W.now().Add(12*time.Millisecond + margin) // the next operation slot
		var target time.Time
		for _, d := range s.Dels {
			if d.State != Out {
				continue
			}
			for _, iv := range []Iv{d.Lease, d.Exp} {
				if !iv.Lo.After(hi) && !iv.Hi.Before(lo) && iv.Hi.After(target) {
					target = iv.Hi
				}
			}
		}
		if target.IsZero() {
			return
		}
		g.W.Jump(target.Sub(g.W.now()) + 2*margin)
	}
}

func (g *Gen) allSubs() []*Sub {
	var out []*Sub
	for _, s := range g.W.Subs {
		out = append(out, s)
	}
	sort.Slice(out, func(i, j int) bool { return out[i].Name < out[j].Name })
	return out
}

// deliveredIDs lists ack ids handed out on s (optionally only still outstanding).
func deliveredIDs(s *Sub, onlyOut bool) []string {
	var ds []*Del
	for _, d := range s.Dels {
		if d.AckID != "" && (!onlyOut || d.State == Out) {
			ds = append(ds, d)
		}
	}
	if canonicalIDs {
		// twin runs: the order of s.Dels is the order in which the model learnt of
		// the records, and for dead-letter forwards that is the order inside a pull
		// response - which no client may rely on and which differs once a prune job
		// has removed rows. Choose by what a client can tell apart instead.
		sort.SliceStable(ds, func(i, j int) bool {
			a, b := ds[i], ds[j]
			if a.Msg.ID != b.Msg.ID {
				return a.Msg.ID < b.Msg.ID
			}
			if a.Attempts != b.Attempts {
				return a.Attempts < b.Attempts
			}
			return a.LastDeliv.Lo.Before(b.LastDeliv.Lo)
		})
	}
	var ids []string
	for _, d := range ds {
		ids = append(ids, d.AckID)
	}
	return ids
}

// canonicalIDs is set by twin-run generators (Profile.ProbeOnly)
var canonicalIDs bool

func (g *Gen) subset(ids []string, p float64) []string {
	var out []string
	for _, id := range ids {
		if g.R.Float64() < p {
			out = append(out, id)
		}
	}
	if len(out) == 0 && len(ids) > 0 {
		out = append(out, ids[g.R.Intn(len(ids))])
	}
	return out
}

// Step performs one generated operation.
func (g *Gen) Step() {
	w, r := g.W, g.R
	g.n++
	op := g.pick(g.P.W)
	w.CallFaultAt = 0
	if g.P.CallFaultPct > 0 && (op == "pull" || op == "pull-due" || op == "modack") && r.Intn(100) < g.P.CallFaultPct {
		w.CallFaultAt = 1 + r.Intn(8)
	}
	subs := g.liveSubs()
	var s *Sub
	if len(subs) > 0 {
		s = subs[r.Intn(len(subs))]
	}
	switch op {
	case "publish":
		lt := g.liveTopics()
		topic := g.topicNames[r.Intn(len(g.topicNames))]
		if len(lt) > 0 && r.Intn(10) > 0 {
			topic = lt[r.Intn(len(lt))]
		}
		n := 1
		if r.Intn(3) == 0 {
			n = 2 + r.Intn(4)
		}
		var msgs []PubMsg
		for i := 0; i < n; i++ {
			key := ""
			if len(g.P.Keys) > 0 {
				key = g.P.Keys[r.Intn(len(g.P.Keys))]
			}
			msgs = append(msgs, PubMsg{Data: pickPayload(r, g.P.Rich, g.n*10+i), Attrs: pickAttrs(r, g.P.Rich), Key: key})
		}
		if g.P.PublishFaultPct > 0 && r.Intn(100) < g.P.PublishFaultPct {
			w.PublishFaultAt = 1 + r.Intn(8)
		}
		w.Publish(topic, msgs)
	case "pull":
		if s == nil {
			return
		}
		g.settle([]*Sub{s})
		out := len(s.outstanding())
		max := out + 5
		dlDue := false
		for _, d := range s.Dels {
			if d.State == Out && d.dlEligible() {
				dlDue = true
			}
		}
		if !dlDue && r.Intn(3) == 0 && !g.P.ProbeOnly {
			max = 1 + r.Intn(3)
		}
		if g.P.ProbeOnly && !g.P.NoTick {
			g.avoidBoundaries(s)
		}
		if g.P.ProbeOnly {
			// twin runs: the LIMIT must never bind - which of several rows with equal
			// attempt_at a bound query picks depends on physical row order, and that
			// legitimately differs once a prune job has removed rows
			max = 1000
		}
		w.Pull(s.Name, max)
	case "pull-wait":
		if s == nil {
			return
		}
		g.settle([]*Sub{s})
		if !strings.HasPrefix(g.P.Name, "lease") {
			w.PullWait(s.Name, len(s.outstanding())+5)
			break
		}
		// lease profiles: the long poll starts 2-9 s before the first running lease
		// of the subscription ends, so it is the lapse that wakes it; afterwards a
		// probe lands in the second half of the stretch by which a lease counted
		// from the start of the call would be too short
		var first time.Time
		for _, d := range s.Dels {
			if d.State == Out && !d.Wild && d.Lease.Lo.After(w.now()) && (first.IsZero() || d.Lease.Lo.Before(first)) {
				first = d.Lease.Lo
			}
		}
		if lead := time.Duration(2000+r.Intn(7000)) * time.Millisecond; !first.IsZero() && first.Sub(w.now()) > lead && first.Sub(w.now()) < time.Hour {
			w.Jump(first.Sub(w.now()) - lead)
		}
		t0 := w.now()
		rms := w.PullWait(s.Name, len(s.outstanding())+5)
		waited := w.now().Sub(t0)
		if len(rms) == 0 || waited < 100*time.Millisecond {
			break
		}
		w.stat("waiting_pulls_woken_by_a_lapsing_lease", 1)
		var next time.Time
		for _, rm := range rms {
			if d := w.ByAck[rm.AckId]; d != nil && d.State == Out && (next.IsZero() || d.Lease.Lo.Before(next)) {
				next = d.Lease.Lo
			}
		}
		if !next.IsZero() {
			if j := next.Add(-waited / 2).Sub(w.now()); j > 0 && r.Intn(4) != 0 {
				w.Jump(j)
			}
			w.Pull(s.Name, len(s.outstanding())+5)
			w.stat("probes_inside_the_lease_of_a_woken_long_poll", 1)
		}
	case "pull-due":
		// jump past every running lease of one subscription, then probe
		if s == nil {
			return
		}
		var t time.Time
		for _, d := range s.Dels {
			if d.State == Out && !d.expiredPossible(d.Lease.Hi.Add(time.Second)) && d.Lease.Hi.After(t) {
				t = d.Lease.Hi
			}
		}
		if d := t.Sub(w.now()); d > 0 && d < 2*time.Hour {
			w.Jump(d + 5*time.Millisecond)
		}
		g.settle([]*Sub{s})
		if g.P.ProbeOnly && !g.P.NoTick {
			g.avoidBoundaries(s)
		}
		if g.P.ProbeOnly {
			w.Pull(s.Name, 1000)
			break
		}
		w.Pull(s.Name, len(s.outstanding())+5)
	case "ack":
		if s == nil {
			return
		}
		ids := deliveredIDs(s, true)
		if len(ids) == 0 {
			return
		}
		sel := g.subset(ids, 0.6)
		switch r.Intn(6) {
		case 0: // duplicate + stale ids mixed in
			sel = append(sel, g.subset(deliveredIDs(s, false), 0.3)...)
			sel = append(sel, sel[0])
		case 1: // unknown well-formed id mixed in
			sel = append(sel, uuid.NewSHA1(uuid.Nil, []byte(fmt.Sprint(g.n))).String())
		}
		w.Ack(s.Name, sel)
		if r.Intn(5) == 0 {
			w.Ack(s.Name, sel) // ack twice
		}
	case "ack-fault":
		if s == nil {
			return
		}
		if ids := deliveredIDs(s, true); len(ids) > 0 {
			// a third of the faults are the one error the call retries on by itself
			// (PostgreSQL's deadlock report): the answer after the internal retry binds
			w.AckUnderFault(s.Name, g.subset(ids, 0.6), 1+r.Intn(6), r.Intn(3) == 0)
		}
	case "ack-all":
		if s == nil {
			return
		}
		if ids := deliveredIDs(s, true); len(ids) > 0 {
			w.Ack(s.Name, ids)
		}
	case "stale":
		// operations on ids that are already settled must change nothing
		if s == nil {
			return
		}
		var stale []string
		for _, d := range s.Dels {
			if d.AckID != "" && d.State != Out {
				stale = append(stale, d.AckID)
			}
		}
		if len(stale) == 0 {
			return
		}
		sel := g.subset(stale, 0.5)
		switch r.Intn(3) {
		case 0:
			w.Ack(s.Name, sel)
		case 1:
			w.ModAck(s.Name, sel, 0)
		case 2:
			w.ModAck(s.Name, sel, []int32{1, 30, 600}[r.Intn(3)])
		}
	case "modack":
		if s == nil {
			return
		}
		ids := deliveredIDs(s, true)
		if len(ids) == 0 {
			return
		}
		secs := []int32{0, 0, 1, 5, 30, 600, -1}[r.Intn(7)]
		w.ModAck(s.Name, g.subset(ids, 0.5), secs)
	case "nack":
		if s == nil {
			return
		}
		ids := deliveredIDs(s, true)
		if r.Intn(4) == 0 {
			ids = deliveredIDs(s, false) // stale ids mixed in
		}
		if len(ids) == 0 {
			return
		}
		sel := g.subset(ids, 0.5)
		w.Nack(sel)
		if r.Intn(6) == 0 {
			w.Nack(sel) // nack twice
		}
	case "foreign":
		// requests under one subscription's name carrying ids of the decoy
		if s == nil || g.decoy == "" {
			return
		}
		dc, ok := w.Subs[g.decoy]
		if !ok {
			return
		}
		if len(deliveredIDs(dc, false)) == 0 {
			w.Pull(g.decoy, 3)
		}
		ids := deliveredIDs(dc, false)
		if len(ids) == 0 {
			return
		}
		for _, d := range dc.Dels {
			d.Wild = true
		}
		if r.Intn(2) == 0 {
			w.Ack(s.Name, g.subset(ids, 0.5))
		} else {
			w.ModAck(s.Name, g.subset(ids, 0.5), 0)
		}
	case "jump":
		d := []time.Duration{50 * time.Millisecond, 400 * time.Millisecond, 2 * time.Second, 11 * time.Second, 30 * time.Second, 3 * time.Minute, 20 * time.Minute}[r.Intn(7)]
		w.Jump(d)
	case "jump-long":
		d := []time.Duration{2 * time.Hour, 26 * time.Hour, 8 * 24 * time.Hour}[r.Intn(3)]
		w.Jump(d)
	case "seek-time":
		if s == nil || w.isDLTarget(s) {
			return
		}
		var t time.Time
		var exact []time.Time
		for _, d := range s.Dels {
			if !d.Forwarded && !d.Msg.PubExact.IsZero() {
				exact = append(exact, d.Msg.PubExact)
			}
		}
		switch r.Intn(7) {
		case 5, 6:
			// exactly the publish time the server reported for a message the client
			// has seen ("resume after the last one I processed")
			if len(exact) > 0 {
				t = exact[r.Intn(len(exact))]
			} else {
				t = g.instants[r.Intn(len(g.instants))]
			}
		case 0:
			t = w.E.Epoch.Add(-time.Hour)
		case 1:
			// "purge the backlog": a time in the future, near or far
			t = w.now().Add([]time.Duration{time.Hour, 400 * 24 * time.Hour}[r.Intn(2)])
		case 2:
			t = w.now().Add(3 * time.Millisecond)
		default:
			t = g.instants[r.Intn(len(g.instants))]
		}
		w.SeekTime(s.Name, t)
	case "snapshot":
		if s == nil || w.isDLTarget(s) {
			return
		}
		n := fmt.Sprintf("projects/p/snapshots/x%d", len(g.snapNames)%4)
		if len(g.snapNames) < 4 {
			g.snapNames = append(g.snapNames, n)
		} else {
			n = g.snapNames[r.Intn(len(g.snapNames))]
			if _, ok := w.Snaps[n]; ok {
				w.DeleteSnapshot(n)
			}
		}
		w.CreateSnapshot(n, s.Name)
	case "seek-snapshot":
		if s == nil || w.isDLTarget(s) {
			return
		}
		var own []string
		for _, n := range g.snapNames {
			if sn, ok := w.Snaps[n]; ok && sn.Sub == s {
				own = append(own, n)
			}
		}
		if len(own) == 0 {
			return
		}
		w.SeekSnapshot(s.Name, own[r.Intn(len(own))])
	case "job":
		name := PruneJobs[r.Intn(len(PruneJobs))]
		w.RunJob(name, []time.Duration{0, time.Second, time.Hour}[r.Intn(3)], []int{1, 2, 100}[r.Intn(3)])
	case "expire-job":
		w.RunJob(ExpireJob, 0, 100)
	case "sweep":
		g.settle(g.allSubs())
		w.Sweep(100)
	case "delete-sub":
		if s == nil {
			return
		}
		w.DeleteSub(s.Name)
	case "create-sub":
		// (re-)create a subscription name that is currently free
		for _, n := range g.subNames {
			if _, ok := w.Subs[n]; !ok {
				w.CreateSub(g.subSpec(n))
				return
			}
		}
	case "delete-topic":
		lt := g.liveTopics()
		if len(lt) <= 1 {
			return
		}
		w.DeleteTopic(lt[r.Intn(len(lt))])
	case "create-topic":
		for _, n := range g.topicNames {
			if _, ok := w.Topics[n]; !ok {
				w.CreateTopic(n)
				return
			}
		}
	case "update-sub":
		if s == nil {
			return
		}
		what := []string{"message_retention_duration", "retry_policy", "labels", "filter"}[r.Intn(4)]
		w.UpdateSub(s, what, r)
	case "update-dl":
		if s == nil {
			return
		}
		topic := ""
		switch r.Intn(6) {
		case 0: // clear
		case 1:
			topic = "projects/p/topics/never-created"
		default:
			topic = g.topicNames[r.Intn(len(g.topicNames))]
		}
		n := int32(0)
		if len(g.P.MaxAttempt) > 0 {
			n = g.P.MaxAttempt[r.Intn(len(g.P.MaxAttempt))]
		}
		if r.Intn(5) == 0 {
			n = 0 // the default
		}
		w.UpdateDeadLetter(s, topic, n)
	case "update-ttl":
		if s == nil {
			return
		}
		w.UpdateSub(s, "expiration_policy", r)
	case "set-delay":
		if s == nil {
			return
		}
		w.SetDelay(s, []time.Duration{0, 50 * time.Millisecond, 3 * time.Second, time.Hour}[r.Intn(4)])
	case "stream":
		if s == nil {
			return
		}
		g.settle([]*Sub{s})
		max := []int64{1, 2, 3, 10, 1000, 0}[r.Intn(6)]
		w.StreamSession(s.Name, max, []float64{0, 0.5, 1}[r.Intn(3)], []float64{0, 0, 0.3}[r.Intn(3)])
	case "bad":
		g.badRequest()
	}
	g.mark()
}

// badRequest sends requests that must be rejected and must change nothing.
func (g *Gen) badRequest() {
	w, r := g.W, g.R
	w.slot()
	switch r.Intn(5) {
	case 0:
		_, err := w.E.Sub.Pull(w.Ctx, &pubsubpb.PullRequest{Subscription: "projects/p/topics/t0", MaxMessages: 5, ReturnImmediately: true})
		w.rec("bad-pull-name", "", code(err).String())
		w.expectCode("C16", "Pull(invalid name)", err, codes.InvalidArgument)
	case 1:
		_, err := w.E.Sub.Pull(w.Ctx, &pubsubpb.PullRequest{Subscription: "projects/p/subscriptions/nosuch", MaxMessages: 5, ReturnImmediately: true})
		w.rec("bad-pull-unknown", "", code(err).String())
		w.expectCode("C12", "Pull(unknown)", err, codes.NotFound)
	case 2:
		subs := g.liveSubs()
		if len(subs) == 0 {
			return
		}
		s := subs[r.Intn(len(subs))]
		ids := append(deliveredIDs(s, true), "not-a-uuid")
		_, err := w.E.Sub.Acknowledge(w.Ctx, &pubsubpb.AcknowledgeRequest{Subscription: s.Name, AckIds: ids})
		w.rec("bad-ack-malformed", fmt.Sprintf("%s n=%d", s.Name, len(ids)), code(err).String())
		if code(err) == codes.OK {
			w.violate("C16", "malformed-ack-accepted", "Acknowledge with a malformed ack id returned OK")
		}
	case 3:
		lt := g.liveTopics()
		if len(lt) == 0 {
			return
		}
		_, err := w.E.Pub.Publish(w.Ctx, &pubsubpb.PublishRequest{Topic: lt[0], Messages: []*pubsubpb.PubsubMessage{{Data: []byte(`{"ok":1}`)}, {Data: []byte(`{not json`)}}})
		w.rec("bad-publish-nonjson", lt[0], code(err).String())
		if code(err) == codes.OK {
			w.violate("C16", "nonjson-accepted", "Publish with a non-JSON payload returned OK")
		}
	case 4:
		_, err := w.E.Pub.Publish(w.Ctx, &pubsubpb.PublishRequest{Topic: "projects/p/topics/nosuch", Messages: []*pubsubpb.PubsubMessage{{Data: []byte(`1`)}}})
		w.rec("bad-publish-unknown", "", code(err).String())
		w.expectCode("C12", "Publish(unknown)", err, codes.NotFound)
	}
}

// offerable says whether the model can demand that d is offered again: it is
// outstanding and its lease certainly ends clearly before its retention does.
func offerable(d *Del, now time.Time) bool {
	if d.State != Out || d.Wild || d.Lost || d.Sub.Wild || d.Sub.Decoy || !d.Sub.Live {
		return false
	}
	if d.expiredPossible(now.Add(time.Second)) {
		return false
	}
	due := maxT(d.Lease.Hi, now)
	return due.Add(2 * time.Second).Before(d.Exp.Lo)
}

// Drain pulls past every backoff until the model holds nothing that it could
// still demand to be offered.
func (g *Gen) Drain() {
	w := g.W
	rounds := 0
	maxRounds := 200
	for ; rounds < maxRounds; rounds++ {
		var t time.Time
		pendingAny := false
		for _, s := range g.allSubs() {
			for _, d := range s.Dels {
				if !offerable(d, w.now()) {
					continue
				}
				pendingAny = true
				if d.Lease.Hi.After(t) {
					t = d.Lease.Hi
				}
			}
		}
		if !pendingAny {
			break
		}
		if d := t.Sub(w.now()); d > 0 {
			// do not jump past the retention of something still offerable
			for _, s := range g.allSubs() {
				for _, x := range s.Dels {
					if offerable(x, w.now()) && x.Lease.Hi.Before(t) && x.Exp.Lo.Add(-3*time.Second).Before(t) {
						if c := maxT(x.Lease.Hi, w.now()); c.Before(t) {
							t = c
						}
					}
				}
			}
			if d = t.Sub(w.now()); d > 0 {
				w.Jump(d + 5*time.Millisecond)
			}
		}
		progressed := false
		for _, s := range g.allSubs() {
			if s.Decoy || s.Wild || len(s.outstanding()) == 0 {
				continue
			}
			g.settle([]*Sub{s})
			if g.P.ProbeOnly && !g.P.NoTick {
				g.avoidBoundaries(s)
			}
			dmax := len(s.outstanding()) + 5
			if g.P.ProbeOnly {
				dmax = 1000
			}
			rms := w.Pull(s.Name, dmax)
			if len(rms) > 0 {
				progressed = true
				ids := make([]string, len(rms))
				for i, rm := range rms {
					ids[i] = rm.AckId
				}
				w.Ack(s.Name, ids)
			}
		}
		if !progressed {
			// everything left is blocked behind something that can only go away by
			// expiring, or is waiting for a lease: move to the next such instant
			var next time.Time
			for _, s := range g.allSubs() {
				for _, d := range s.Dels {
					if d.State != Out {
						continue
					}
					for _, c := range []time.Time{d.Exp.Hi, d.Lease.Hi} {
						if c.After(w.now()) && (next.IsZero() || c.Before(next)) {
							next = c
						}
					}
				}
			}
			if next.IsZero() {
				break
			}
			w.Jump(next.Sub(w.now()) + 5*time.Millisecond)
		}
	}
	w.stat("drain_rounds", int64(rounds))
	for _, s := range g.allSubs() {
		for _, d := range s.Dels {
			if offerable(d, w.now()) && d.why(must, w.now(), w.now()) == "" {
				p, sig := propForMiss(d, w.now())
				w.violate(p, "drain:"+sig, "after %d drain rounds %s is still outstanding in the model and was never offered", rounds, d)
				w.siblingBlame(d, "drain:"+sig, fmt.Sprintf("never offered again: %s", d))
			}
		}
	}
}
