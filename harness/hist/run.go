package hist

import (
	"fmt"
	"strings"
	"testing"
	"time"

	"verif/harness/evd"
	"verif/harness/rig"
	"verif/harness/seam"
)

// CaseResult is what one history produced.
type CaseResult struct {
	Seed    int64
	Profile string
	World   *World
}

// Relevant returns the number of events relevant to a property observed in
// this history (used to decide whether the case is non-trivial for it).
var Relevant = map[string]func(w *World) int64{
	"C01": func(w *World) int64 { return w.Stats["must_deliveries_checked"] },
	"C02": func(w *World) int64 { return w.Stats["deliveries_observed"] },
	"C03": func(w *World) int64 {
		return w.Stats["acks_effective"] + w.Stats["ack_stale_ids"] + w.Stats["modack_stale_ids"]
	},
	"C04": func(w *World) int64 { return w.Stats["redeliveries"] },
	"C05": func(w *World) int64 { return w.Stats["ordered_successor_after_settled_predecessor"] },
	"C06": func(w *World) int64 { return w.Stats["forwards_expected"] },
	"C13": func(w *World) int64 { return w.Stats["seek_revived"] + w.Stats["seek_acked"] },
	"C14": func(w *World) int64 {
		return w.Stats["subs_expired"] + w.Stats["expired_not_offered"] + w.Stats["delay_respected"]
	},
	"C15": func(w *World) int64 { return w.Stats["job_rows_deleted"] },
}

// RunHistory runs one generated history and reports into col. extra, if not
// nil, runs after Setup inside the case (for property-specific additions).
func RunHistory(t *testing.T, col *evd.Collector, prop string, p Profile, seed int64) *World {
	return RunHistoryOpt(t, col, prop, p, seed, nil, nil)
}

// RunHistoryOpt is RunHistory with hooks: setup runs on the fresh world before
// the topology is created, finish runs after the drain (inside the case).
func RunHistoryOpt(t *testing.T, col *evd.Collector, prop string, p Profile, seed int64, setup func(*World), finish func(*World, *Gen)) *World {
	var world *World
	rig.SetWatchdogContext(fmt.Sprintf("%s profile=%s seed=%d", prop, p.Name, seed))
	tick := time.Microsecond
	if p.NoTick {
		tick = 0
	}
	rig.RunCase(t, seed, rig.Opts{Tick: tick, Trace: true}, func(e *rig.Env) {
		w := NewWorld(e, prop)
		world = w
		if setup != nil {
			setup(w)
		}
		g := NewGen(w, p)
		g.Setup()
		for i := 0; i < p.Ops; i++ {
			g.Step()
		}
		g.Drain()
		if finish != nil {
			finish(w, g)
		}
		Report(col, prop, p.Name, seed, w)
	})
	return world
}

// Report turns a finished world into collector entries.
func Report(col *evd.Collector, prop, profile string, seed int64, w *World) {
	var sb strings.Builder
	for _, o := range w.Ops {
		sb.WriteString(o.Op)
		sb.WriteByte(':')
		sb.WriteString(o.Res)
		sb.WriteByte(';')
	}
	rel := int64(0)
	if f := Relevant[prop]; f != nil {
		rel = f(w)
	}
	col.Case(evd.FP(sb.String()), rel > 0)
	col.Add("relevant_events", rel)
	for k, v := range w.Stats {
		col.Add("ev_"+k, v)
	}
	for k, v := range w.Kinds {
		col.Add("op_"+k, int64(v))
	}
	col.Add("operations", int64(len(w.Ops)))
	ops := w.Ops
	if len(ops) > 40 {
		ops = ops[:40]
	}
	col.Sample(map[string]any{"seed": seed, "profile": profile, "ops_total": len(w.Ops), "first_ops": ops})
	seen := map[string]bool{}
	for _, v := range w.Viols {
		key := v.Prop + "|" + v.Sig
		if seen[key] {
			continue
		}
		seen[key] = true
		witness := map[string]any{
			"case_seed": seed, "profile": profile, "running_property": prop,
			"violations": w.Viols, "ops": w.Ops, "sql_tail": seam.C.TraceTail(60),
		}
		vcol := col
		vcol.ViolationFor(v.Prop, v.Sig, v.Msg, witness)
	}
}
