package hist

import (
	"context"
	"fmt"
	"math/rand"
	"net/http"
	"net/http/httptest"
	"sort"
	"strings"
	"time"

	"github.com/gin-gonic/gin"
	"github.com/google/uuid"
	"google.golang.org/grpc/codes"
	"google.golang.org/grpc/status"
	"google.golang.org/protobuf/types/known/durationpb"
	"google.golang.org/protobuf/types/known/fieldmaskpb"
	"google.golang.org/protobuf/types/known/timestamppb"

	"go.6river.tech/mmmbbb/actions"
	"go.6river.tech/mmmbbb/controllers"
	"go.6river.tech/mmmbbb/grpc/pubsubpb"
	"go.6river.tech/mmmbbb/middleware"
	"go.6river.tech/mmmbbb/services"

	"verif/harness/ref"
	"verif/harness/rig"
	"verif/harness/seam"
)

// World is the model plus the driver.
type World struct {
	E    *rig.Env
	Ctx  context.Context
	R    *rand.Rand
	Prop string

	Topics    map[string]*Topic
	AllTopics []*Topic
	Subs      map[string]*Sub
	AllSubs   []*Sub
	Snaps     map[string]*Snap
	Msgs      map[string]*Msg
	ByAck     map[string]*Del
	arrSeq    int
	msgSeq    int
	gen       map[string]int

	Ops       []OpRec
	Viols     []Viol
	violCount map[string]int
	Stats     map[string]int64
	Kinds     map[string]int // operations by kind
	gin       *gin.Engine
	// CheckJobs makes RunJob verify each job's row diff against its criterion
	CheckJobs bool
	// SeekRows makes SeekTime verify the stored deliveries right after the call
	SeekRows bool
	pruneLog []pruneRun
	// NoJobs makes RunJob a no-op that still takes its time slot (twin runs)
	NoJobs bool
	// PublishFaultAt, when > 0, makes the next Publish run its first attempt
	// with that statement failing (one shot)
	PublishFaultAt int
	// CallFaultAt, when > 0, does the same for the next Pull / ModifyAckDeadline:
	// first attempt with the k-th statement failing; after an error the client
	// retries, an OK is as binding as any other
	CallFaultAt int
	// StreamAckFaultPct: this share of the stream sessions sends its ack / nack
	// request while one statement of the stream fails
	StreamAckFaultPct int
	// StreamExtends lets stream sessions also extend deadlines (per ack id, in
	// the same request as their nacks)
	StreamExtends bool
	// DiagPulls records, with every pull, the incomplete delivery rows of the
	// subscription as they were before the call (diagnosis of twin differences)
	DiagPulls bool
}

type OpRec struct {
	I    int    `json:"i"`
	At   string `json:"at"`
	Op   string `json:"op"`
	Args string `json:"args,omitempty"`
	Res  string `json:"res,omitempty"`
	Obs  string `json:"obs,omitempty"` // canonical client-visible observation (for twin comparison)
	Diag string `json:"diag,omitempty"`
}

type Viol struct {
	Prop string `json:"property"`
	Sig  string `json:"signature"`
	Msg  string `json:"message"`
	Op   int    `json:"op_index"`
}

func NewWorld(e *rig.Env, prop string) *World {
	epoch0 = e.Epoch
	return &World{
		E: e, Ctx: e.Ctx, R: e.Rand, Prop: prop,
		Topics: map[string]*Topic{}, Subs: map[string]*Sub{}, Snaps: map[string]*Snap{},
		Msgs: map[string]*Msg{}, ByAck: map[string]*Del{}, gen: map[string]int{},
		Stats: map[string]int64{}, Kinds: map[string]int{},
	}
}

func (w *World) now() time.Time { return time.Now() }

func (w *World) stat(k string, n int64) { w.Stats[k] += n }

func (w *World) opn() int { return len(w.Ops) }

// touchTopic notes a deliberate state change on subscription s.
func (w *World) touchTopic(s *Sub) {
	if s != nil && s.Topic != nil {
		s.Topic.Mut = w.opn()
		s.Topic.MutBy = s
	}
}

// siblingBlame: a delivery went missing (or appeared) on d.Sub although the
// only deliberate changes since the model last confirmed it were on a sibling.
func (w *World) siblingBlame(d *Del, sig, msg string) {
	t := d.Sub.Topic
	if t != nil && t.MutBy != nil && t.MutBy != d.Sub && t.Mut >= d.SeenAt {
		w.violate("C02", "sibling-interference:"+sig, "after an operation on sibling %s (op %d): %s", t.MutBy.Name, t.Mut, msg)
	}
}

func (w *World) rec(op, args, res string) {
	w.Kinds[op]++
	if len(w.Ops) < 3000 {
		w.Ops = append(w.Ops, OpRec{I: len(w.Ops), At: ts(w.now()), Op: op, Args: args, Res: res})
	}
}

// Violate records a violation from outside the package.
func (w *World) Violate(prop, sig, format string, a ...any) { w.violate(prop, sig, format, a...) }

func (w *World) violate(prop, sig, format string, a ...any) {
	msg := fmt.Sprintf(format, a...)
	// a few witnesses per kind, not "the first twenty of any kind": a defect that
	// floods one property's oracle must not crowd out what another one sees
	if w.violCount == nil {
		w.violCount = map[string]int{}
	}
	key := prop + "|" + sig
	w.violCount[key]++
	if w.violCount[key] <= 3 && len(w.Viols) < 300 {
		w.Viols = append(w.Viols, Viol{Prop: prop, Sig: sig, Msg: msg, Op: len(w.Ops)})
	}
}

// slot advances the virtual clock to the next 10 ms boundary so that operations
// of one seed happen at the same instants in every run.
func (w *World) slot() {
	const q = 10 * time.Millisecond
	off := w.now().Sub(w.E.Epoch)
	next := (off/q + 1) * q
	time.Sleep(next - off)
}

// Jump advances the virtual clock.
func (w *World) Jump(d time.Duration) {
	if d <= 0 {
		return
	}
	time.Sleep(d)
	w.rec("jump", d.String(), "")
	w.stat("virtual_ns", int64(d))
}

func code(err error) codes.Code { return status.Code(err) }

func (w *World) expectCode(prop, op string, err error, want ...codes.Code) bool {
	got := code(err)
	for _, c := range want {
		if got == c {
			return true
		}
	}
	w.violate(prop, "status:"+op+":"+got.String(), "%s returned %v (%v), expected one of %v", op, got, err, want)
	return false
}

// ---- topics ---------------------------------------------------------------

func (w *World) CreateTopic(name string) {
	w.slot()
	_, err := w.E.Pub.CreateTopic(w.Ctx, &pubsubpb.Topic{Name: name})
	w.rec("create-topic", name, code(err).String())
	if _, live := w.Topics[name]; live {
		w.expectCode("C12", "CreateTopic(existing)", err, codes.AlreadyExists)
		return
	}
	if !w.expectCode("C12", "CreateTopic(new)", err, codes.OK) {
		return
	}
	w.gen[name]++
	t := &Topic{Name: name, Gen: w.gen[name], Live: true}
	w.Topics[name] = t
	w.AllTopics = append(w.AllTopics, t)
}

func (w *World) DeleteTopic(name string) {
	w.slot()
	_, err := w.E.Pub.DeleteTopic(w.Ctx, &pubsubpb.DeleteTopicRequest{Topic: name})
	w.rec("delete-topic", name, code(err).String())
	t, live := w.Topics[name]
	if !live {
		w.expectCode("C12", "DeleteTopic(dead)", err, codes.NotFound)
		return
	}
	if !w.expectCode("C12", "DeleteTopic(live)", err, codes.OK) {
		return
	}
	t.Live = false
	delete(w.Topics, name)
	for n, s := range w.Snaps {
		if s.Topic == t {
			delete(w.Snaps, n)
		}
	}
}

// ---- subscriptions --------------------------------------------------------

type SubSpec struct {
	Name, Topic string
	Filter      *ref.Node
	Ordered     bool
	MinB, MaxB  time.Duration
	DLTopic     string
	MaxAttempts int32
	Retention   time.Duration // 0 = default
	TTL         time.Duration // 0 = default
	Decoy       bool
}

const (
	defaultTTL       = 30 * 24 * time.Hour
	defaultRetention = 7 * 24 * time.Hour
)

func (w *World) CreateSub(sp SubSpec) *Sub {
	w.slot()
	req := &pubsubpb.Subscription{Name: sp.Name, Topic: sp.Topic, EnableMessageOrdering: sp.Ordered}
	fs := ""
	if sp.Filter != nil {
		fs = sp.Filter.String()
		req.Filter = fs
	}
	if sp.MinB > 0 || sp.MaxB > 0 {
		req.RetryPolicy = &pubsubpb.RetryPolicy{}
		if sp.MinB > 0 {
			req.RetryPolicy.MinimumBackoff = durationpb.New(sp.MinB)
		}
		if sp.MaxB > 0 {
			req.RetryPolicy.MaximumBackoff = durationpb.New(sp.MaxB)
		}
	}
	if sp.DLTopic != "" {
		req.DeadLetterPolicy = &pubsubpb.DeadLetterPolicy{DeadLetterTopic: sp.DLTopic, MaxDeliveryAttempts: sp.MaxAttempts}
	}
	if sp.Retention > 0 {
		req.MessageRetentionDuration = durationpb.New(sp.Retention)
	}
	if sp.TTL > 0 {
		req.ExpirationPolicy = &pubsubpb.ExpirationPolicy{Ttl: durationpb.New(sp.TTL)}
	}
	lo := w.now()
	_, err := w.E.Sub.CreateSubscription(w.Ctx, req)
	hi := w.now()
	w.rec("create-sub", fmt.Sprintf("%s topic=%s filter=%q ordered=%v min=%v max=%v dl=%s/%d ret=%v ttl=%v", sp.Name, sp.Topic, fs, sp.Ordered, sp.MinB, sp.MaxB, sp.DLTopic, sp.MaxAttempts, sp.Retention, sp.TTL), code(err).String())
	if _, live := w.Subs[sp.Name]; live {
		w.expectCode("C12", "CreateSubscription(existing)", err, codes.AlreadyExists)
		return nil
	}
	t, tl := w.Topics[sp.Topic]
	var dlt *Topic
	if sp.DLTopic != "" {
		var ok bool
		if dlt, ok = w.Topics[sp.DLTopic]; !ok {
			tl = false
		}
	}
	if !tl {
		w.expectCode("C12", "CreateSubscription(no topic)", err, codes.NotFound)
		return nil
	}
	if !w.expectCode("C12", "CreateSubscription(new)", err, codes.OK) {
		return nil
	}
	w.gen[sp.Name]++
	s := &Sub{Name: sp.Name, Gen: w.gen[sp.Name], Live: true, Topic: t, Decoy: sp.Decoy, ByMsg: map[string][]*Del{}, Activity: Iv{lo, hi}}
	s.Cfg = SubCfg{Filter: fs, FilterAST: sp.Filter, Ordered: sp.Ordered, MinB: sp.MinB, MaxB: sp.MaxB, Retention: sp.Retention, TTL: sp.TTL}
	if s.Cfg.Retention == 0 {
		s.Cfg.Retention = defaultRetention
	}
	if s.Cfg.TTL == 0 {
		s.Cfg.TTL = defaultTTL
	}
	if dlt != nil {
		s.DLEver = map[*Topic]bool{dlt: true}
		s.Cfg.DLTopic = dlt
		s.Cfg.MaxAttempts = int(sp.MaxAttempts)
		if s.Cfg.MaxAttempts == 0 {
			s.Cfg.MaxAttempts = 5
		}
		for _, x := range dlt.Subs {
			x.IsDLTarget = true
		}
	}
	for _, x := range w.AllSubs {
		if x.everDL(t) {
			s.IsDLTarget = true
		}
	}
	t.Subs = append(t.Subs, s)
	w.Subs[sp.Name] = s
	w.AllSubs = append(w.AllSubs, s)
	return s
}

func (w *World) DeleteSub(name string) {
	w.slot()
	_, err := w.E.Sub.DeleteSubscription(w.Ctx, &pubsubpb.DeleteSubscriptionRequest{Subscription: name})
	w.rec("delete-sub", name, code(err).String())
	s, live := w.Subs[name]
	if !live {
		w.expectCode("C12", "DeleteSubscription(dead)", err, codes.NotFound)
		return
	}
	if s.Wild {
		if code(err) == codes.NotFound || code(err) == codes.OK {
			s.Live = false
			delete(w.Subs, name)
		}
		return
	}
	if !w.expectCode("C12", "DeleteSubscription(live)", err, codes.OK) {
		return
	}
	s.Live = false
	w.touchTopic(s)
	delete(w.Subs, name)
}

// UpdateSub changes fields that only affect later publishes / deliveries.
func (w *World) UpdateSub(s *Sub, what string, r *rand.Rand) {
	w.slot()
	req := &pubsubpb.UpdateSubscriptionRequest{Subscription: &pubsubpb.Subscription{Name: s.Name}, UpdateMask: &fieldmaskpb.FieldMask{Paths: []string{what}}}
	nc := s.Cfg
	switch what {
	case "message_retention_duration":
		s.Reshuffled = true
		nc.Retention = []time.Duration{20 * time.Second, 3 * time.Minute, time.Hour, 7 * 24 * time.Hour}[r.Intn(4)]
		req.Subscription.MessageRetentionDuration = durationpb.New(nc.Retention)
	case "retry_policy":
		nc.MinB = []time.Duration{0, 200 * time.Millisecond, 2 * time.Second, 15 * time.Second}[r.Intn(4)]
		nc.MaxB = []time.Duration{0, 3 * time.Second, 40 * time.Second, 20 * time.Minute}[r.Intn(4)]
		req.Subscription.RetryPolicy = &pubsubpb.RetryPolicy{}
		// a bound of zero is sent either as an absent field or as an explicit 0s:
		// both mean "the default"
		explicitZero := r.Intn(2) == 0
		if nc.MinB > 0 || explicitZero {
			req.Subscription.RetryPolicy.MinimumBackoff = durationpb.New(nc.MinB)
		}
		if nc.MaxB > 0 || explicitZero {
			req.Subscription.RetryPolicy.MaximumBackoff = durationpb.New(nc.MaxB)
		}
	case "expiration_policy":
		nc.TTL = []time.Duration{2 * time.Minute, time.Hour, 24 * time.Hour, 30 * 24 * time.Hour, 0, 0}[r.Intn(6)]
		req.Subscription.ExpirationPolicy = &pubsubpb.ExpirationPolicy{Ttl: durationpb.New(nc.TTL)}
		if nc.TTL == 0 {
			// "no TTL given" (absent, or an explicit zero): the documented default
			if r.Intn(2) == 0 {
				req.Subscription.ExpirationPolicy = &pubsubpb.ExpirationPolicy{}
			}
			nc.TTL = defaultTTL
		}
	case "labels":
		nc.Labels = map[string]string{"k": fmt.Sprint(r.Intn(5))}
		req.Subscription.Labels = nc.Labels
	case "filter":
		f := pickFilter(r)
		nc.FilterAST = f
		nc.Filter = ""
		if f != nil {
			nc.Filter = f.String()
		}
		req.Subscription.Filter = nc.Filter
	}
	lo := w.now()
	_, err := w.E.Sub.UpdateSubscription(w.Ctx, req)
	hi := w.now()
	w.rec("update-sub", s.Name+" "+what, code(err).String())
	if !s.Live {
		w.expectCode("C12", "UpdateSubscription(dead)", err, codes.NotFound)
		return
	}
	if s.Wild {
		return
	}
	if !w.expectCode("C17", "UpdateSubscription", err, codes.OK) {
		return
	}
	s.Cfg = nc
	if what == "expiration_policy" {
		s.Activity = Iv{lo, hi}
	}
}

// UpdateDeadLetter changes, sets or clears the dead-letter policy of a live
// subscription. topic "" clears it; a topic that does not exist must be refused
// and leave the policy as it was.
func (w *World) UpdateDeadLetter(s *Sub, topic string, maxAttempts int32) {
	w.slot()
	req := &pubsubpb.UpdateSubscriptionRequest{Subscription: &pubsubpb.Subscription{Name: s.Name}, UpdateMask: &fieldmaskpb.FieldMask{Paths: []string{"dead_letter_policy"}}}
	if topic != "" {
		req.Subscription.DeadLetterPolicy = &pubsubpb.DeadLetterPolicy{DeadLetterTopic: topic, MaxDeliveryAttempts: maxAttempts}
	}
	_, err := w.E.Sub.UpdateSubscription(w.Ctx, req)
	w.rec("update-dl", fmt.Sprintf("%s -> %s/%d", s.Name, topic, maxAttempts), code(err).String())
	if !s.Live {
		w.expectCode("C12", "UpdateSubscription(dead)", err, codes.NotFound)
		return
	}
	if s.Wild {
		return
	}
	if topic == "" {
		if w.expectCode("C17", "UpdateSubscription(clear dead_letter_policy)", err, codes.OK) {
			s.Cfg.DLTopic, s.Cfg.MaxAttempts = nil, 0
			w.stat("dead_letter_policy_cleared", 1)
		}
		return
	}
	dlt, ok := w.Topics[topic]
	if !ok {
		w.expectCode("C12", "UpdateSubscription(dead_letter_policy: no such topic)", err, codes.NotFound)
		return
	}
	if !w.expectCode("C17", "UpdateSubscription(dead_letter_policy)", err, codes.OK) {
		return
	}
	if s.DLEver == nil {
		s.DLEver = map[*Topic]bool{}
	}
	s.DLEver[dlt] = true
	s.Cfg.DLTopic = dlt
	s.Cfg.MaxAttempts = int(maxAttempts)
	if s.Cfg.MaxAttempts == 0 {
		s.Cfg.MaxAttempts = 5
	}
	for _, x := range dlt.Subs {
		x.IsDLTarget = true
	}
	w.stat("dead_letter_policy_set", 1)
}

// SetDelay sets the injected delivery delay through the real controller.
func (w *World) SetDelay(s *Sub, d time.Duration) {
	w.slot()
	if w.gin == nil {
		gin.SetMode(gin.ReleaseMode)
		r := gin.New()
		r.ContextWithFallback = true // as the production router does
		r.Use(middleware.WithEntClient(w.E.Client, middleware.Key()))
		if err := (&controllers.DelayInjectorController{}).Register(r); err != nil {
			w.E.T.Fatalf("register delay controller: %v", err)
		}
		w.gin = r
	}
	body := fmt.Sprintf(`{"delay":%q}`, d.String())
	req := httptest.NewRequest(http.MethodPut, "/delays/"+s.Name, strings.NewReader(body)).WithContext(w.Ctx)
	req.Header.Set("content-type", "application/json")
	rec := httptest.NewRecorder()
	w.gin.ServeHTTP(rec, req)
	w.rec("set-delay", fmt.Sprintf("%s %v", s.Name, d), fmt.Sprint(rec.Code))
	if !s.Live {
		if rec.Code != http.StatusNotFound {
			w.violate("C12", "delay-on-dead-sub", "PUT /delays on a deleted subscription answered %d", rec.Code)
		}
		return
	}
	if s.Wild {
		return
	}
	if rec.Code != http.StatusOK {
		w.violate("C14", "set-delay-failed", "PUT /delays/%s %s answered %d: %s", s.Name, body, rec.Code, rec.Body.String())
		return
	}
	s.Cfg.Delay = d
	w.stat("delays_set", 1)
}

// ---- publish --------------------------------------------------------------

type PubMsg struct {
	Data  []byte
	Attrs map[string]string
	Key   string
}

func filterMatch(f *ref.Node, attrs map[string]string) ref.TV {
	if f == nil {
		return ref.True
	}
	return f.Eval(attrs)
}

func (w *World) newDel(s *Sub, m *Msg, at Iv, fwd bool) *Del {
	d := &Del{Sub: s, Msg: m, State: Out, Lease: at.Add(s.Cfg.Delay), Exp: at.Add(s.Cfg.Retention), Arr: at, ArrSeq: w.arrSeq, Forwarded: fwd, LeaseWhy: "arrival", SeenAt: w.opn()}
	s.Dels = append(s.Dels, d)
	s.ByMsg[m.ID] = append(s.ByMsg[m.ID], d)
	return d
}

func (w *World) Publish(topic string, msgs []PubMsg) []*Msg {
	w.slot()
	req := &pubsubpb.PublishRequest{Topic: topic}
	for _, m := range msgs {
		req.Messages = append(req.Messages, &pubsubpb.PubsubMessage{Data: m.Data, Attributes: m.Attrs, OrderingKey: m.Key})
	}
	lo := w.now()
	var resp *pubsubpb.PublishResponse
	var err error
	if k := w.PublishFaultAt; k > 0 {
		// first attempt while the k-th statement of the call fails; an OK answer
		// counts like any other, after an error the publisher retries
		w.PublishFaultAt = 0
		actor := fmt.Sprintf("faulty-publish-%d", w.opn())
		seam.C.SetFault(&seam.Fault{Actor: actor, K: k, Mode: seam.FaultError})
		resp, err = w.E.Pub.Publish(w.E.Actor(actor), req)
		if seam.C.FaultHits() > 0 {
			w.stat("publish_faults_hit", 1)
			if err == nil {
				w.stat("publish_ok_although_a_statement_failed", 1)
			}
		}
		seam.C.SetFault(nil)
		if err != nil {
			if _, live := w.Topics[topic]; live {
				resp, err = w.E.Pub.Publish(w.Ctx, req)
			}
		}
	} else {
		resp, err = w.E.Pub.Publish(w.Ctx, req)
	}
	hi := w.now()
	keys := make([]string, len(msgs))
	for i, m := range msgs {
		keys[i] = m.Key
	}
	w.rec("publish", fmt.Sprintf("%s n=%d keys=%v", topic, len(msgs), keys), code(err).String())
	t, live := w.Topics[topic]
	if !live {
		w.expectCode("C12", "Publish(dead topic)", err, codes.NotFound)
		return nil
	}
	if !w.expectCode("C01", "Publish", err, codes.OK) {
		return nil
	}
	if len(resp.MessageIds) != len(msgs) {
		w.violate("C01", "publish-ids", "Publish returned %d ids for %d messages", len(resp.MessageIds), len(msgs))
		return nil
	}
	var out []*Msg
	at := Iv{lo, hi}
	for i, pm := range msgs {
		id := resp.MessageIds[i]
		if _, dup := w.Msgs[id]; dup {
			w.violate("C01", "publish-dup-id", "Publish returned an id already in use: %s", id)
			continue
		}
		w.msgSeq++
		w.arrSeq++
		m := &Msg{ID: id, Topic: t, Data: pm.Data, Attrs: pm.Attrs, Key: pm.Key, Pub: at, Seq: w.msgSeq}
		w.Msgs[id] = m
		out = append(out, m)
		for _, s := range t.Subs {
			if !s.Live {
				continue
			}
			switch filterMatch(s.Cfg.FilterAST, pm.Attrs) {
			case ref.True:
				w.newDel(s, m, at, false)
				w.stat("deliveries_expected", 1)
			case ref.Unspec:
				d := w.newDel(s, m, at, false)
				d.Wild = true
				w.stat("filter_unspecified", 1)
			}
		}
	}
	w.stat("messages_published", int64(len(out)))
	return out
}

// ---- pull -----------------------------------------------------------------

func attrsEqual(a, b map[string]string) bool {
	if len(a) != len(b) {
		return false
	}
	for k, v := range a {
		if w, ok := b[k]; !ok || w != v {
			return false
		}
	}
	return true
}

// lookup finds the delivery record a received message refers to. A message
// can have several delivery rows on one subscription (dead-letter loops); an
// ack id seen for the first time is matched to the record that best explains it.
func (w *World) lookup(s *Sub, rm *pubsubpb.ReceivedMessage, lo, hi time.Time) *Del {
	if d, ok := w.ByAck[rm.AckId]; ok {
		return d
	}
	var best *Del
	bestRank := -1
	for _, d := range s.ByMsg[rm.GetMessage().GetMessageId()] {
		if d.AckID != "" {
			continue
		}
		rank := 0
		switch {
		case d.State == Out && d.why(may, lo, hi) == "" && d.Attempts+1 == int(rm.DeliveryAttempt):
			rank = 4
		case d.State == Out && d.why(may, lo, hi) == "":
			rank = 3
		case d.State == Out:
			rank = 2
		case d.Wild:
			rank = 1
		}
		if rank > bestRank {
			best, bestRank = d, rank
		}
	}
	if best != nil && bestRank < 3 && w.wildSource(s, best.Msg) {
		// no record explains it, but a forwarded copy from a delivery the model
		// lost track of would: let the caller adopt it as such
		return nil
	}
	return best
}

// propForMiss attributes a missing (must-be-offered) delivery.
func propForMiss(d *Del, at time.Time) (string, string) {
	switch {
	case d.Forwarded && d.Attempts == 0:
		return "C06", "forward-missing"
	case d.Revived && !d.ExpBeforeRevive.Hi.IsZero() && at.After(d.ExpBeforeRevive.Hi):
		// revived by a seek, offered while its *old* retention ran, gone once that
		// ended: the retention was not counted from the seek
		return "C14", "revived-message-gone-when-its-old-retention-ended"
	case d.Revived:
		return "C13", "seek-revived-missing"
	case d.Attempts > 0 && (d.LeaseWhy == "nack" || d.LeaseWhy == "stream-nack"):
		// the lease was ended by a zero deadline: "immediately redeliverable" is
		// the lease property's own promise
		return "C04", "not-redeliverable-after-zero-deadline"
	case d.Attempts > 0:
		return "C01", "redelivery-missing"
	}
	return "C01", "never-delivered"
}

func propForUnexpected(reason string) (string, string) {
	switch reason {
	case "acked":
		return "C03", "delivered-after-ack"
	case "seeked":
		return "C13", "delivered-after-seek-past"
	case "deadlettered":
		return "C06", "delivered-after-deadletter"
	case "expired":
		return "C14", "delivered-after-retention"
	case "lease-running":
		return "C04", "delivered-before-deadline"
	case "blocked-by-predecessor":
		return "C05", "overtook-predecessor"
	}
	return "C02", "unexpected:" + reason
}

// checkDeliveries is the heart of the reference model: it checks a set of
// received messages (from Pull or a stream send) against MUST/MAY and updates
// the model. capacity is the maximum number of rows the server could select
// (max_messages); probe says MUST ⊆ R may be asserted even if len(R)==capacity.
func (w *World) checkDeliveries(s *Sub, via string, rms []*pubsubpb.ReceivedMessage, capacity int, lo, hi time.Time, assertMust bool) {
	var mustSet, maySet []*Del
	var fwd []*Del
	uncertainDL := false
	maybeSilent := 0 // rows that may be selected and retired without being returned
	for _, d := range s.Dels {
		if d.State == Out && !d.Wild && !d.countedExpired && d.expiredCertain(lo) {
			d.countedExpired = true
			w.stat("expired_not_offered", 1)
		}
		if d.State != Out {
			if d.Wild {
				// the model lost track of it: it may well be outstanding
				maySet = append(maySet, d)
				if s.hasDL() {
					maybeSilent++
				}
			}
			continue
		}
		wm := d.why(must, lo, hi)
		wy := d.why(may, lo, hi)
		if wy == "" {
			maySet = append(maySet, d)
		}
		if d.dlEligible() && s.dlVoid() {
			// the dead-letter topic was deleted: whether the policy still retires
			// messages depends on whether the topic row was pruned - unspecified
			if d.whyOpt(may, lo, hi, true) == "" {
				maybeSilent++
				if !d.Wild {
					d.Wild = true
					w.stat("wild_deadletter_topic_deleted", 1)
				}
			}
			continue
		}
		if d.dlEligible() {
			if wm == "" {
				fwd = append(fwd, d)
				continue
			}
			if d.whyOpt(may, lo, hi, true) == "" {
				// (ordering deliberately ignored: a bent predecessor chain must not
				// let the model believe a due delivery is safely parked)
				maybeSilent++
				if !d.Wild {
					// cannot know whether it was forwarded by this request
					d.Wild = true
					uncertainDL = true
					w.stat("wild_uncertain_deadletter", 1)
				}
			}
			continue
		}
		if wm == "" {
			mustSet = append(mustSet, d)
		}
	}
	_ = uncertainDL
	seen := map[string]bool{}
	got := map[*Del]bool{}
	bytes := 0
	unexpected := 0
	for _, rm := range rms {
		if seen[rm.AckId] {
			w.violate("C02", "duplicate-in-response", "%s on %s: ack id %s twice in one response", via, s.Name, rm.AckId)
			continue
		}
		seen[rm.AckId] = true
		d := w.lookup(s, rm, lo, hi)
		mid := rm.GetMessage().GetMessageId()
		if d == nil {
			unexpected++
			if s.Decoy {
				continue
			}
			if m, ok := w.Msgs[mid]; ok {
				p, sig := "C02", "unrouted-message"
				if w.wildSource(s, m) {
					// a delivery the model lost track of may have been dead-lettered
					// into this subscription: adopt the copy, untracked
					nd := w.newDel(s, m, Iv{lo, hi}, true)
					nd.Wild = true
					nd.AckID = rm.AckId
					nd.Attempts = int(rm.DeliveryAttempt)
					w.ByAck[rm.AckId] = nd
					w.stat("wild_adopted_forward", 1)
					continue
				}
				if w.isDLTarget(s) && m.Topic != s.Topic {
					p, sig = "C06", "unexpected-forward"
				} else if len(s.ByMsg[mid]) > 0 {
					p, sig = "C02", "second-delivery-row"
					if w.isDLTarget(s) {
						p, sig = "C06", "duplicate-forward"
					}
				}
				w.violate(p, sig, "%s on %s#%d (topic %s#%d filter %q dltarget=%v) at %s returned message %s (topic %s#%d, pub %s, key %q, attrs %v) as attempt %d that has no matching delivery in the model; model deliveries of that message: %s", via, s.Name, s.Gen, s.Topic.Name, s.Topic.Gen, s.Cfg.Filter, w.isDLTarget(s), ts(lo), short(mid), m.Topic.Name, m.Topic.Gen, m.Pub, m.Key, m.Attrs, rm.DeliveryAttempt, w.delsOfMsg(m))
			} else {
				w.violate("C02", "unknown-message", "%s on %s returned unknown message id %s", via, s.Name, mid)
			}
			continue
		}
		if d.Sub != s {
			w.violate("C02", "foreign-delivery", "%s on %s returned ack id %s which belongs to %s", via, s.Name, rm.AckId, d.Sub.Name)
			continue
		}
		got[d] = true
		m := d.Msg
		pm := rm.GetMessage()
		bytes += len(pm.Data)
		if pm.MessageId != m.ID || !ref.JSONEqual(pm.Data, m.Data) || !attrsEqual(pm.Attributes, m.Attrs) || pm.OrderingKey != m.Key {
			w.violate("C02", "content-mismatch", "%s on %s: message %s differs from what was published: data %q vs %q attrs %v vs %v key %q vs %q", via, s.Name, short(m.ID), pm.Data, m.Data, pm.Attributes, m.Attrs, pm.OrderingKey, m.Key)
		}
		if pt := pm.PublishTime.AsTime(); !pt.Before(m.Pub.Lo) && !pt.After(m.Pub.Hi) {
			m.PubExact = pt
		}
		if pt := pm.PublishTime.AsTime(); pt.Before(m.Pub.Lo) || pt.After(m.Pub.Hi) {
			w.violate("C02", "publish-time", "%s on %s: message %s publish_time %s outside publish call %s", via, s.Name, short(m.ID), ts(pt), m.Pub)
		}
		if d.AckID != "" && d.AckID != rm.AckId {
			w.violate("C02", "ackid-changed", "%s on %s: message %s ack id changed %s -> %s", via, s.Name, short(m.ID), d.AckID, rm.AckId)
		}
		reason := d.why(may, lo, hi)
		if reason != "" && !d.Wild && !s.Decoy {
			unexpected++
			p, sig := propForUnexpected(reason)
			if reason == "lease-running" && d.LeaseWhy == "arrival" {
				p, sig = "C14", "delivered-before-delay"
			}
			if reason == "blocked-by-predecessor" {
				dp := w.directPred(d, hi)
				sig += ":direct-predecessor-" + dp
				if dp != "out" && !s.Reshuffled {
					// an older message outstanding behind a settled or expired direct
					// predecessor needs something that settles or expires same-key
					// messages out of publish order: a seek (revival, fresh retention)
					// or a retention update. Without either this is not the recorded
					// shape, whatever the predecessor looks like.
					sig += ":without-seek-or-retention-change"
				}
			}
			w.violate(p, sig, "%s on %s#%d at %s delivered %s although the model says: %s%s%s", via, s.Name, s.Gen, ts(lo), d, reason, sameKey(d), w.rowDiag(d))
			if reason != "blocked-by-predecessor" {
				w.siblingBlame(d, sig, fmt.Sprintf("%s on %s delivered %s (%s)", via, s.Name, d, reason))
			}
		}
		if !d.Wild && !s.Decoy {
			if int(rm.DeliveryAttempt) != d.Attempts+1 {
				w.violate("C04", "attempt-number", "%s on %s: message %s reported delivery_attempt %d, model expects %d", via, s.Name, short(m.ID), rm.DeliveryAttempt, d.Attempts+1)
			}
			if s.hasDL() && !s.dlVoid() && int(rm.DeliveryAttempt) > s.Cfg.MaxAttempts {
				w.violate("C06", "attempts-exceed-max", "%s on %s: message %s delivered as attempt %d > max_delivery_attempts %d", via, s.Name, short(m.ID), rm.DeliveryAttempt, s.Cfg.MaxAttempts)
			}
		}
		if d.Attempts == 0 && d.Lease.Lo.After(d.Arr.Lo) && d.LeaseWhy == "arrival" {
			w.stat("delay_respected", 1)
		}
		// adopt what was observed
		if d.State != Out {
			d.State = Out
		}
		if d.Attempts > 0 {
			w.stat("redeliveries", 1)
			if d.Sub.Cfg.Ordered && d.Msg.Key != "" {
				w.stat("ordered_redeliveries", 1)
			}
		}
		d.Attempts = int(rm.DeliveryAttempt)
		if d.AckID == "" {
			d.AckID = rm.AckId
			w.ByAck[rm.AckId] = d
		}
		nom := s.backoff(d.Attempts)
		// the new lease counts from the hand-out, and a call that waited cannot
		// have handed the message out before it became due: when the model's
		// earliest due instant falls inside the call, that is the lower bound
		// (a lease counted from the start of a long poll is too short by the wait)
		handLo := lo
		if reason == "" && !d.Wild && !s.Decoy && d.Lease.Lo.After(lo) && !d.Lease.Lo.After(hi) {
			handLo = d.Lease.Lo
			w.stat("leases_counted_from_due_instant_inside_a_waiting_call", 1)
		}
		d.Lease = Iv{handLo.Add(nom - time.Millisecond), hi.Add(nom + ref.JitterBound + time.Millisecond)}
		d.LeaseWhy = "delivery"
		d.LastDeliv = Iv{lo, hi}
		d.SeenAt = w.opn()
		d.Revived = false
		d.Lost = false
		w.stat("deliveries_observed", 1)
		if d.Forwarded {
			w.stat("forwarded_deliveries_observed", 1)
		}
		if s.Cfg.Ordered && m.Key != "" {
			w.stat("ordered_keyed_deliveries", 1)
			for _, p := range s.Dels {
				if p != d && p.Msg.Key == m.Key && p.ArrSeq < d.ArrSeq && p.State != Out {
					w.stat("ordered_successor_after_settled_predecessor", 1)
					break
				}
			}
		}
	}
	if len(rms) > capacity {
		w.violate("C02", "more-than-max", "%s on %s returned %d messages, max_messages %d", via, s.Name, len(rms), capacity)
	}
	for _, d := range fwd {
		if got[d] {
			continue // already reported as attempts-exceed-max
		}
	}
	if s.Decoy || s.Wild {
		return
	}
	selectedAll := len(maySet) <= capacity || len(rms)+len(fwd)+maybeSilent < capacity
	if bytes > 8<<20 || unexpected > 0 {
		// a reply that already contradicts the model says nothing reliable about
		// which rows the server had to choose from
		selectedAll = false
	}
	if assertMust && selectedAll {
		for _, d := range mustSet {
			if !got[d] {
				p, sig := propForMiss(d, lo)
				w.violate(p, sig, "%s on %s#%d at %s (max %d, returned %d) did not offer %s which must be deliverable%s%s", via, s.Name, s.Gen, ts(lo), capacity, len(rms), d, sameKey(d), w.rowDiag(d)+w.dueDiag(s, lo))
				w.siblingBlame(d, sig, fmt.Sprintf("%s on %s did not offer %s", via, s.Name, d))
				d.Lost = true
			}
		}
		w.stat("must_checks", 1)
		w.stat("must_deliveries_checked", int64(len(mustSet)))
	}
	if selectedAll {
		for _, d := range fwd {
			if !got[d] {
				w.forward(d, Iv{lo, hi})
			}
		}
	} else {
		for _, d := range fwd {
			d.Wild = true
			w.stat("wild_limited_pull_deadletter", 1)
		}
	}
}

// forward applies the documented effect of dead-lettering d.
func (w *World) forward(d *Del, at Iv) {
	d.State = DeadLettered
	d.DoneAt = at
	w.stat("forwards_expected", 1)
	t := d.Sub.Cfg.DLTopic
	if t == nil || !t.Live {
		w.stat("forwards_to_dead_topic", 1)
		return
	}
	for _, s := range t.Subs {
		if !s.Live {
			continue
		}
		switch filterMatch(s.Cfg.FilterAST, d.Msg.Attrs) {
		case ref.True:
			w.newDel(s, d.Msg, at, true)
			w.stat("forward_deliveries_expected", 1)
		case ref.Unspec:
			nd := w.newDel(s, d.Msg, at, true)
			nd.Wild = true
		}
	}
}

func (w *World) touch(s *Sub, lo, hi time.Time) { s.Activity = Iv{lo, hi} }

// Pull issues a unary Pull (return_immediately) and checks it.
func (w *World) Pull(name string, max int) []*pubsubpb.ReceivedMessage {
	return w.pull(name, max, true)
}

// PullWait issues a unary Pull that waits (up to the server's 59 s, in virtual
// time) until something is deliverable.
func (w *World) PullWait(name string, max int) []*pubsubpb.ReceivedMessage {
	return w.pull(name, max, false)
}

// pullDiag: the subscription's incomplete delivery rows (message, attempts,
// attempt_at and expires_at relative to now, and the predecessor's state).
func (w *World) pullDiag(name string) string {
	q := `SELECT d.message_id, d.attempts, d.attempt_at, d.expires_at, d.not_before_id, p.message_id, p.completed_at, p.expires_at
	      FROM deliveries d JOIN subscriptions s ON d.subscription_id = s.id LEFT JOIN deliveries p ON d.not_before_id = p.id
	      WHERE s.name = ? AND s.deleted_at IS NULL AND d.completed_at IS NULL ORDER BY d.published_at, d.id`
	rows, err := w.E.RawDB().QueryContext(context.Background(), q, name)
	if err != nil {
		return "query failed: " + err.Error()
	}
	defer rows.Close()
	now := w.now()
	var out []string
	for rows.Next() {
		var mid, nb, pmid, pca, pea any
		var att int
		var at, ea any
		if err := rows.Scan(&mid, &att, &at, &ea, &nb, &pmid, &pca, &pea); err != nil {
			return "scan failed: " + err.Error()
		}
		rel := func(v any) string {
			if t, ok := v.(time.Time); ok {
				return t.Sub(now).String()
			}
			return "NULL"
		}
		pred := "none"
		if nb != nil {
			pred = fmt.Sprintf("%s(completed=%v expires=%s)", short(idString(pmid)), pca != nil, rel(pea))
			if pmid == nil {
				pred = "dangling"
			}
		}
		out = append(out, fmt.Sprintf("%s att=%d due=%s exp=%s pred=%s", short(idString(mid)), att, rel(at), rel(ea), pred))
	}
	return strings.Join(out, "; ")
}

func (w *World) pull(name string, max int, immediately bool) []*pubsubpb.ReceivedMessage {
	w.slot()
	diag := ""
	if w.DiagPulls {
		diag = w.pullDiag(name)
	}
	lo := w.now()
	req := &pubsubpb.PullRequest{Subscription: name, MaxMessages: int32(max), ReturnImmediately: immediately}
	var resp *pubsubpb.PullResponse
	var err error
	faulted := false
	if k := w.CallFaultAt; k > 0 && immediately {
		w.CallFaultAt = 0
		faulted = true
		actor := fmt.Sprintf("faulty-pull-%d", w.opn())
		seam.C.SetFault(&seam.Fault{Actor: actor, K: k, Mode: seam.FaultError})
		resp, err = w.E.Sub.Pull(w.E.Actor(actor), req)
		if seam.C.FaultHits() > 0 {
			w.stat("pull_faults_hit", 1)
			if err == nil {
				w.stat("pull_ok_although_a_statement_failed", 1)
			}
		}
		seam.C.SetFault(nil)
		if err != nil {
			resp, err = w.E.Sub.Pull(w.Ctx, req)
		}
	} else {
		resp, err = w.E.Sub.Pull(w.Ctx, req)
	}
	_ = faulted
	hi := w.now()
	if !immediately {
		w.stat("waiting_pulls", 1)
		w.stat("virtual_ns", int64(hi.Sub(lo)))
	}
	n := 0
	if resp != nil {
		n = len(resp.ReceivedMessages)
	}
	opName := "pull"
	if !immediately {
		opName = "pull-wait"
	}
	w.rec(opName, fmt.Sprintf("%s max=%d", name, max), fmt.Sprintf("%s n=%d", code(err), n))
	w.Ops[len(w.Ops)-1].Diag = diag
	if resp != nil {
		var obs []string
		for _, rm := range resp.ReceivedMessages {
			obs = append(obs, fmt.Sprintf("%s#%d", short(rm.Message.MessageId), rm.DeliveryAttempt))
		}
		sort.Strings(obs)
		w.Ops[len(w.Ops)-1].Obs = strings.Join(obs, ",")
	}
	s, live := w.Subs[name]
	if !live {
		w.expectCode("C12", "Pull(dead sub)", err, codes.NotFound)
		return nil
	}
	if s.Wild {
		if err != nil {
			return nil
		}
	} else if !w.expectCode("C01", "Pull", err, codes.OK) {
		return nil
	}
	w.touch(s, lo, hi)
	w.checkDeliveries(s, "Pull", resp.ReceivedMessages, max, lo, hi, true)
	return resp.ReceivedMessages
}

// ---- ack / modack ---------------------------------------------------------

func (w *World) Ack(subName string, ids []string) {
	w.slot()
	lo := w.now()
	_, err := w.E.Sub.Acknowledge(w.Ctx, &pubsubpb.AcknowledgeRequest{Subscription: subName, AckIds: ids})
	hi := w.now()
	w.rec("ack", fmt.Sprintf("%s n=%d", subName, len(ids)), code(err).String())
	if !w.expectCode("C03", "Acknowledge", err, codes.OK) {
		return
	}
	w.applyAck(ids, lo, hi)
}

// AckUnderFault acknowledges while the k-th statement the call issues (BEGIN,
// each statement, COMMIT) fails with a driver error. An answer of OK is final
// like any other; after an error the client does what clients do - it retries
// (fault-free), and that answer counts.
func (w *World) AckUnderFault(subName string, ids []string, k int, deadlock bool) {
	w.slot()
	lo := w.now()
	actor := fmt.Sprintf("faulty-ack-%d", w.opn())
	req := &pubsubpb.AcknowledgeRequest{Subscription: subName, AckIds: ids}
	mode := seam.FaultError
	if deadlock {
		mode = seam.FaultDeadlock
	}
	seam.C.SetFault(&seam.Fault{Actor: actor, K: k, Mode: mode})
	_, err := w.E.Sub.Acknowledge(w.E.Actor(actor), req)
	hit := seam.C.FaultHits() > 0
	seam.C.SetFault(nil)
	res := fmt.Sprintf("%s fault@%d deadlock=%v hit=%v", code(err), k, deadlock, hit)
	if hit {
		w.stat("ack_faults_hit", 1)
		if deadlock {
			w.stat("ack_deadlock_reports_hit", 1)
			if err == nil {
				w.stat("ack_ok_after_its_own_retry_of_a_deadlock_report", 1)
			}
		}
		if err == nil {
			w.stat("ack_ok_although_a_statement_failed", 1)
		}
	}
	if err != nil {
		_, err = w.E.Sub.Acknowledge(w.Ctx, req)
		res += " retry=" + code(err).String()
	}
	hi := w.now()
	w.rec("ack-fault", fmt.Sprintf("%s n=%d", subName, len(ids)), res)
	if !w.expectCode("C03", "Acknowledge(retry after an injected storage error)", err, codes.OK) {
		return
	}
	w.applyAck(ids, lo, hi)
}

func (w *World) applyAck(ids []string, lo, hi time.Time) {
	for _, id := range ids {
		d := w.ByAck[id]
		if d == nil {
			w.stat("ack_unknown_ids", 1)
			continue
		}
		if d.State == Out {
			d.State = Acked
			d.DoneAt = Iv{lo, hi}
			w.touchTopic(d.Sub)
			w.stat("acks_effective", 1)
		} else {
			w.stat("ack_stale_ids", 1)
		}
	}
}

func (w *World) ModAck(subName string, ids []string, secs int32) {
	w.slot()
	lo := w.now()
	mreq := &pubsubpb.ModifyAckDeadlineRequest{Subscription: subName, AckIds: ids, AckDeadlineSeconds: secs}
	var err error
	if k := w.CallFaultAt; k > 0 {
		w.CallFaultAt = 0
		actor := fmt.Sprintf("faulty-modack-%d", w.opn())
		seam.C.SetFault(&seam.Fault{Actor: actor, K: k, Mode: seam.FaultError})
		_, err = w.E.Sub.ModifyAckDeadline(w.E.Actor(actor), mreq)
		if seam.C.FaultHits() > 0 {
			w.stat("modack_faults_hit", 1)
			if err == nil {
				w.stat("modack_ok_although_a_statement_failed", 1)
			}
		}
		seam.C.SetFault(nil)
		if err != nil {
			_, err = w.E.Sub.ModifyAckDeadline(w.Ctx, mreq)
		}
	} else {
		_, err = w.E.Sub.ModifyAckDeadline(w.Ctx, mreq)
	}
	hi := w.now()
	w.rec("modack", fmt.Sprintf("%s n=%d secs=%d", subName, len(ids), secs), code(err).String())
	if !w.expectCode("C04", "ModifyAckDeadline", err, codes.OK) {
		return
	}
	for _, id := range ids {
		d := w.ByAck[id]
		if d == nil || d.State != Out {
			w.stat("modack_stale_ids", 1)
			continue
		}
		w.touchTopic(d.Sub)
		if secs > 0 {
			dd := time.Duration(secs) * time.Second
			d.Lease = Iv{maxT(d.Lease.Lo, lo.Add(dd)), maxT(d.Lease.Hi, hi.Add(dd))}
			w.stat("modack_extend", 1)
		} else {
			d.Lease = Iv{lo.Add(time.Duration(secs) * time.Second), hi}
			d.LeaseWhy = "nack"
			w.stat("modack_zero", 1)
		}
	}
}

// Nack runs the NackDeliveries action the way the message streamer does for a
// negative acknowledgement (HTTP push failures take this path): outstanding
// deliveries are rescheduled by the backoff, or dead-lettered at once when they
// have used up their attempts.
func (w *World) Nack(ids []string) {
	w.slot()
	var uu []uuid.UUID
	for _, id := range ids {
		if u, err := uuid.Parse(id); err == nil {
			uu = append(uu, u)
		}
	}
	lo := w.now()
	a := actions.NewNackDeliveries(uu...)
	err := w.E.Client.DoCtxTx(w.Ctx, nil, a.Execute)
	hi := w.now()
	w.rec("nack", fmt.Sprintf("n=%d", len(ids)), fmt.Sprint(err))
	if err != nil {
		w.violate("C04", "nack-error", "NackDeliveries failed: %v", err)
		return
	}
	for _, id := range ids {
		d := w.ByAck[id]
		if d == nil || d.State != Out || d.Wild || d.Sub.Wild {
			w.stat("nack_stale_ids", 1)
			continue
		}
		if d.expiredCertain(lo) {
			continue
		}
		if d.expiredPossible(hi) {
			d.Wild = true
			continue
		}
		w.touchTopic(d.Sub)
		if d.dlEligible() {
			if d.Sub.dlVoid() {
				d.Wild = true
				w.stat("wild_deadletter_topic_deleted", 1)
				continue
			}
			w.forward(d, Iv{lo, hi})
			w.stat("nack_deadlettered", 1)
			continue
		}
		nom := d.Sub.backoff(d.Attempts)
		d.Lease = Iv{lo.Add(nom - time.Millisecond), hi.Add(nom + ref.JitterBound + time.Millisecond)}
		d.LeaseWhy = "nack-backoff"
		w.stat("nacks_effective", 1)
	}
}

// ---- seek / snapshots -----------------------------------------------------

// rowsOf peeks at which delivery rows of a subscription still exist; "retained"
// is implementation-defined (pruned rows are documented as not resurrected).
func (w *World) rowsOf(s *Sub) map[string]bool {
	out := map[string]bool{}
	rows, err := w.E.RawDB().QueryContext(context.Background(), `SELECT d.id FROM deliveries d JOIN subscriptions s ON d.subscription_id = s.id WHERE s.name = ? AND s.deleted_at IS NULL`, s.Name)
	if err != nil {
		w.E.T.Fatalf("rowsOf: %v", err)
	}
	defer rows.Close()
	for rows.Next() {
		var id any
		if err := rows.Scan(&id); err != nil {
			w.E.T.Fatalf("rowsOf scan: %v", err)
		}
		out[idString(id)] = true
	}
	return out
}

func idString(v any) string {
	switch x := v.(type) {
	case []byte:
		if len(x) == 16 {
			u, _ := uuid.FromBytes(x)
			return u.String()
		}
		return string(x)
	case string:
		return x
	}
	return fmt.Sprint(v)
}

// rowByMsg peeks (message id -> delivery id) for deliveries never delivered yet.
func (w *World) rowIDs(s *Sub) map[string][]string {
	out := map[string][]string{}
	rows, err := w.E.RawDB().QueryContext(context.Background(), `SELECT d.id, d.message_id FROM deliveries d JOIN subscriptions s ON d.subscription_id = s.id WHERE s.name = ? AND s.deleted_at IS NULL`, s.Name)
	if err != nil {
		w.E.T.Fatalf("rowIDs: %v", err)
	}
	defer rows.Close()
	for rows.Next() {
		var id, mid any
		if err := rows.Scan(&id, &mid); err != nil {
			w.E.T.Fatalf("rowIDs scan: %v", err)
		}
		out[idString(mid)] = append(out[idString(mid)], idString(id))
	}
	return out
}

func (w *World) retained(s *Sub, d *Del, rows map[string]bool, byMsg map[string][]string) bool {
	there := len(byMsg[d.Msg.ID]) > 0
	if d.AckID != "" {
		there = rows[d.AckID]
	}
	if !there && !d.Wild && !d.pruneChecked {
		d.pruneChecked = true
		w.checkPrunedLegitimately(s, d)
	}
	return there
}

type pruneRun struct {
	job    string
	minAge time.Duration
	at     Iv
}

// checkPrunedLegitimately: the row of a delivery the model still knows is gone.
// Only two jobs remove deliveries of a live subscription: the completed-deliveries
// pruner (completed for at least its age threshold) and the expired-deliveries
// pruner (retention over). If no run of either can account for it - by the
// model's own record of when the delivery was settled - a seek has lost a
// message that was retained by every rule the jobs were given.
func (w *World) checkPrunedLegitimately(s *Sub, d *Del) {
	for _, r := range w.pruneLog {
		switch r.job {
		case "prune-completed-deliveries":
			if d.State != Out && !d.DoneAt.Lo.IsZero() && !d.DoneAt.Lo.After(r.at.Hi.Add(-r.minAge)) {
				return
			}
			if d.DoneAt.Lo.IsZero() && d.State != Out {
				return // the model has no record of when it was settled
			}
		case "prune-expired-deliveries":
			if d.Exp.Lo.Before(r.at.Hi) {
				return
			}
		case "prune-deleted-subscription-deliveries", "prune-deleted-subscriptions":
			if s.Gen > 1 || !s.Topic.Live {
				return // rows of an earlier incarnation / of a subscription whose topic went away: not tracked here
			}
		}
	}
	w.stat("missing_rows_no_job_accounts_for", 1)
	w.violate("C13", "seek:settled-delivery-gone-before-any-job-could-remove-it", "at a seek on %s the row of %s is gone (state %s, settled %s, retention until %s), but none of the %d prune runs so far could have removed it under its own rule (completed for >= its age threshold, or retention over): a message that was retained by every rule cannot be replayed", s.Name, d, d.State, d.DoneAt, d.Exp, len(w.pruneLog))
}

func (w *World) revive(d *Del, at Iv) {
	d.ExpBeforeRevive = d.Exp
	d.State = Out
	d.Lease = at
	d.LeaseWhy = "seek"
	d.Exp = at.Add(d.Sub.Cfg.Retention)
	d.Revived = true
	d.Lost = false
	d.SeenAt = w.opn()
	w.stat("seek_revived", 1)
}

func (w *World) SeekTime(name string, t time.Time) {
	w.slot()
	s, live := w.Subs[name]
	var rows map[string]bool
	var byMsg map[string][]string
	if live {
		rows, byMsg = w.rowsOf(s), w.rowIDs(s)
	}
	lo := w.now()
	_, err := w.E.Sub.Seek(w.Ctx, &pubsubpb.SeekRequest{Subscription: name, Target: &pubsubpb.SeekRequest_Time{Time: timestamppb.New(t)}})
	hi := w.now()
	w.rec("seek-time", fmt.Sprintf("%s t=%s", name, ts(t)), code(err).String())
	if live {
		s.Reshuffled = true
	}
	if !live {
		w.expectCode("C12", "Seek(dead sub)", err, codes.NotFound)
		return
	}
	if err == nil {
		// read off the rows, so it needs no model of this subscription
		w.checkSeekRows(s, t, lo, hi)
	}
	if s.Wild {
		return
	}
	if !w.expectCode("C13", "Seek(time)", err, codes.OK) {
		return
	}
	at := Iv{lo, hi}
	w.touchTopic(s)
	for _, d := range s.Dels {
		if d.Wild {
			continue
		}
		if !w.retained(s, d, rows, byMsg) {
			continue
		}
		if d.Exp.Hi.Before(lo) {
			continue // retention over: untouched
		}
		if d.Exp.Lo.Before(hi) {
			d.Wild = true
			w.stat("wild_seek_expiry_window", 1)
			continue
		}
		before := !d.Arr.Hi.After(t)
		after := d.Arr.Lo.After(t)
		if !d.Forwarded && !d.Msg.PubExact.IsZero() {
			// the server has told the client the exact publish time: "at or before"
			// is decidable, also for a seek to exactly that instant
			before = !d.Msg.PubExact.After(t)
			after = !before
			if d.Msg.PubExact.Equal(t) {
				w.stat("seek_to_exact_publish_time", 1)
			}
		}
		if d.Forwarded && !d.Msg.Pub.Hi.After(t) && after {
			// "published" is ambiguous for a forwarded copy
			d.Wild = true
			w.stat("wild_seek_forwarded_ambiguous", 1)
			continue
		}
		switch {
		case before && d.State == Out:
			d.State = Seeked
			d.DoneAt = at
			w.stat("seek_acked", 1)
		case after && d.State != Out:
			w.revive(d, at)
		case !before && !after:
			d.Wild = true
			w.stat("wild_seek_inside_arrival", 1)
		}
	}
	w.stat("seeks", 1)
}

// checkSeekRows is the seek-to-time clause read off the stored state right after
// the call returned: of the subscription's deliveries whose retention had not
// ended, exactly those published after t are outstanding. (The model alone cannot
// say this for deliveries it must be lenient about - e.g. a revived one that has
// used up its attempts is due for dead-lettering, not for delivery.)
func (w *World) checkSeekRows(s *Sub, t, lo, hi time.Time) {
	if !w.SeekRows {
		return
	}
	d, err := rig.TakeDump(w.E.RawDB())
	if err != nil {
		return
	}
	subID := ""
	for _, r := range d["subscriptions"] {
		if r["name"] == s.Name && r["deleted_at"] == "NULL" {
			subID = r["id"]
		}
	}
	if subID == "" {
		return
	}
	for _, r := range d["deliveries"] {
		if r["subscription_id"] != subID {
			continue
		}
		pub, ok1 := parseT(r["published_at"])
		exp, ok2 := parseT(r["expires_at"])
		if !ok1 || !ok2 || !exp.After(hi) {
			continue // retention (possibly) over at the seek: no claim
		}
		w.stat("seek_rows_checked", 1)
		done := r["completed_at"] != "NULL"
		switch {
		case pub.After(t) && done:
			w.violate("C13", "seek-time:retained-delivery-not-made-outstanding", "Seek(%s, %s) returned OK at %s, but delivery %s of a message published at %s (after the seek time; attempts %s, retention until %s) is still completed", s.Name, ts(t), ts(hi), short(r["id"]), r["published_at"], r["attempts"], r["expires_at"])
		case !pub.After(t) && !done:
			w.violate("C13", "seek-time:earlier-delivery-left-outstanding", "Seek(%s, %s) returned OK at %s, but delivery %s of a message published at %s (at or before the seek time) is still outstanding", s.Name, ts(t), ts(hi), short(r["id"]), r["published_at"])
		}
	}
}

func (w *World) CreateSnapshot(name, sub string) {
	w.slot()
	lo := w.now()
	_, err := w.E.Sub.CreateSnapshot(w.Ctx, &pubsubpb.CreateSnapshotRequest{Name: name, Subscription: sub})
	hi := w.now()
	w.rec("create-snapshot", name+" of "+sub, code(err).String())
	if _, exists := w.Snaps[name]; exists {
		w.expectCode("C12", "CreateSnapshot(existing)", err, codes.AlreadyExists)
		return
	}
	s, live := w.Subs[sub]
	if !live {
		w.expectCode("C12", "CreateSnapshot(dead sub)", err, codes.NotFound)
		return
	}
	if s.Wild {
		return
	}
	if !s.Topic.Live {
		w.expectCode("C12", "CreateSnapshot(subscription whose topic is deleted)", err, codes.NotFound)
		return
	}
	if !w.expectCode("C12", "CreateSnapshot", err, codes.OK) {
		return
	}
	sn := &Snap{Name: name, Sub: s, Topic: s.Topic, T: Iv{lo, hi}, U: map[string]bool{}, Unc: map[string]bool{}}
	for _, d := range s.Dels {
		if d.Wild {
			sn.Unc[d.Msg.ID] = true
			continue
		}
		if d.State != Out {
			continue
		}
		switch {
		case !d.expiredPossible(hi):
			sn.U[d.Msg.ID] = true
		default:
			// outstanding but (possibly) past retention at snapshot time
			sn.Unc[d.Msg.ID] = true
		}
	}
	w.Snaps[name] = sn
	w.stat("snapshots", 1)
}

func (w *World) DeleteSnapshot(name string) {
	w.slot()
	_, err := w.E.Sub.DeleteSnapshot(w.Ctx, &pubsubpb.DeleteSnapshotRequest{Snapshot: name})
	w.rec("delete-snapshot", name, code(err).String())
	if _, ok := w.Snaps[name]; !ok {
		w.expectCode("C12", "DeleteSnapshot(absent)", err, codes.NotFound)
		return
	}
	if w.expectCode("C12", "DeleteSnapshot", err, codes.OK) {
		delete(w.Snaps, name)
	}
}

func (w *World) SeekSnapshot(name, snap string) {
	w.slot()
	s, live := w.Subs[name]
	var rows map[string]bool
	var byMsg map[string][]string
	if live {
		rows, byMsg = w.rowsOf(s), w.rowIDs(s)
	}
	lo := w.now()
	_, err := w.E.Sub.Seek(w.Ctx, &pubsubpb.SeekRequest{Subscription: name, Target: &pubsubpb.SeekRequest_Snapshot{Snapshot: snap}})
	hi := w.now()
	w.rec("seek-snapshot", name+" -> "+snap, code(err).String())
	if live {
		s.Reshuffled = true
	}
	sn, ok := w.Snaps[snap]
	if !live || !ok {
		w.expectCode("C12", "Seek(snapshot; dead sub or snapshot)", err, codes.NotFound)
		return
	}
	if s.Wild {
		return
	}
	if !w.expectCode("C13", "Seek(snapshot)", err, codes.OK) {
		return
	}
	at := Iv{lo, hi}
	w.touchTopic(s)
	if sn.Sub != s {
		// snapshot of another subscription: outside the modelled domain
		for _, d := range s.Dels {
			d.Wild = true
		}
		w.stat("wild_seek_sibling_snapshot", 1)
		return
	}
	for _, d := range s.Dels {
		if d.Wild {
			continue
		}
		if sn.Unc[d.Msg.ID] || d.Forwarded {
			d.Wild = true
			w.stat("wild_seek_snapshot_uncertain", 1)
			continue
		}
		if !w.retained(s, d, rows, byMsg) {
			continue
		}
		inTarget := sn.U[d.Msg.ID] || d.Arr.Lo.After(sn.T.Hi)
		between := !d.Arr.Lo.After(sn.T.Hi) && !d.Arr.Hi.Before(sn.T.Lo)
		if between && !sn.U[d.Msg.ID] {
			d.Wild = true
			continue
		}
		expiredC := d.Exp.Hi.Before(lo)
		if !expiredC && d.expiredPossible(hi) {
			d.Wild = true
			w.stat("wild_seek_expiry_window", 1)
			continue
		}
		switch {
		case inTarget && d.State != Out && !expiredC:
			w.revive(d, at)
		case inTarget && d.State != Out && expiredC:
			d.Wild = true // reviving a completed delivery whose retention has ended: unspecified
			w.stat("wild_seek_revive_expired", 1)
		case !inTarget && d.State == Out && !expiredC:
			d.State = Seeked
			d.DoneAt = at
			w.stat("seek_acked", 1)
		}
	}
	w.stat("seeks_to_snapshot", 1)
}

// ---- background jobs ------------------------------------------------------

var PruneJobs = []string{
	"prune-completed-deliveries", "prune-expired-deliveries", "prune-completed-messages",
	"prune-deleted-subscription-deliveries", "prune-deleted-subscriptions", "prune-deleted-topics",
}

const ExpireJob = "delete-expired-subscriptions"

// RunJob runs one iteration of a prune/expire job through the service's runOnce.
func (w *World) RunJob(name string, minAge time.Duration, maxDelete int) (int, error) {
	w.slot()
	if w.NoJobs && name != ExpireJob {
		w.rec("job-skipped", fmt.Sprintf("%s minAge=%v max=%d", name, minAge, maxDelete), "")
		return 0, nil
	}
	var before rig.Dump
	if w.CheckJobs {
		before, _ = rig.TakeDump(w.E.RawDB())
	}
	lo := w.now()
	n, err := services.VerifPruneRunOnce(w.Ctx, w.E.Client, name, actions.PruneCommonParams{MinAge: minAge, MaxDelete: maxDelete})
	hi := w.now()
	if minAge == 0 && name != ExpireJob {
		// an age threshold left at zero means the services' documented default: one hour
		minAge = time.Hour
	}
	w.pruneLog = append(w.pruneLog, pruneRun{name, minAge, Iv{lo, hi}})
	res := fmt.Sprintf("n=%d", n)
	if err != nil {
		res += " err=" + err.Error()
	}
	w.rec("job", fmt.Sprintf("%s minAge=%v max=%d", name, minAge, maxDelete), res)
	w.stat("jobs_run", 1)
	w.stat("job_rows_deleted", int64(n))
	if err != nil {
		w.stat("job_errors", 1)
	}
	if w.CheckJobs && before != nil {
		after, _ := rig.TakeDump(w.E.RawDB())
		w.checkJobDiff(name, minAge, maxDelete, n, err, before, after, lo, hi)
	}
	if name == ExpireJob && err == nil {
		w.applyExpiry(lo, hi, n, maxDelete)
	}
	return n, err
}

func parseT(s string) (time.Time, bool) {
	if s == "NULL" || s == "" {
		return time.Time{}, false
	}
	t, err := time.Parse(time.RFC3339Nano, s)
	return t, err == nil
}

// checkJobDiff: a maintenance job may only delete rows that meet its documented
// criterion, at most max_delete of them, and change nothing else (apart from the
// predecessor link of a surviving delivery being cleared when its predecessor
// row goes away).
func (w *World) checkJobDiff(job string, minAge time.Duration, maxDelete, n int, jerr error, before, after rig.Dump, lo, hi time.Time) {
	idx := func(d rig.Dump, t string) map[string]rig.Row {
		m := map[string]rig.Row{}
		for _, r := range d[t] {
			m[r["id"]] = r
		}
		return m
	}
	bad := func(sig, f string, a ...any) {
		w.violate("C15", "job-diff:"+job+":"+sig, "%s (minAge %v, max %d) at %s: %s", job, minAge, maxDelete, ts(lo), fmt.Sprintf(f, a...))
	}
	cut := hi.Add(-minAge)
	deleted := 0
	bsubs, btopics, bdels := idx(before, "subscriptions"), idx(before, "topics"), idx(before, "deliveries")
	hasDel := map[string]bool{} // message id / subscription id -> has a delivery row (before)
	hasSubOfTopic := map[string]bool{}
	for _, r := range before["deliveries"] {
		hasDel["m:"+r["message_id"]] = true
		hasDel["s:"+r["subscription_id"]] = true
	}
	for _, r := range before["subscriptions"] {
		hasSubOfTopic[r["topic_id"]] = true
	}
	for _, t := range rig.Tables {
		am := idx(after, t)
		for id, r := range idx(before, t) {
			ra, still := am[id]
			if !still {
				deleted++
				ok := false
				switch {
				case job == "prune-completed-deliveries" && t == "deliveries":
					c, set := parseT(r["completed_at"])
					ok = set && !c.After(cut)
					// the stamp the job went by must be the time the delivery really was
					// settled: by the model's own record of the client call that settled it
					if d := w.ByAck[id]; ok && d != nil && !d.Wild && d.State != Out && !d.DoneAt.Lo.IsZero() && d.DoneAt.Lo.After(hi.Add(-minAge)) {
						bad("removed-delivery-settled-more-recently-than-min-age", "deleted delivery %s, which was settled (%s) at %s - less than the age threshold before this run; its stored completed_at says %s", short(id), d.State, d.DoneAt, r["completed_at"])
					}
				case job == "prune-expired-deliveries" && t == "deliveries":
					x, set := parseT(r["expires_at"])
					ok = set && x.Before(hi)
				case job == "prune-completed-messages" && t == "messages":
					p, set := parseT(r["published_at"])
					ok = set && !p.After(cut) && !hasDel["m:"+id]
				case job == "prune-deleted-subscription-deliveries" && t == "deliveries":
					sub := bsubs[r["subscription_id"]]
					d, set := parseT(sub["deleted_at"])
					ok = set && !d.After(cut)
				case job == "prune-deleted-subscriptions" && t == "subscriptions":
					d, set := parseT(r["deleted_at"])
					ok = set && !d.After(cut) && !hasDel["s:"+id]
				case job == "prune-deleted-topics" && t == "topics":
					d, set := parseT(r["deleted_at"])
					ok = set && !d.After(cut) && !hasSubOfTopic[id]
				}
				if !ok {
					bad("removed-row-outside-criterion:"+t, "deleted %s row %v which does not meet the job's criterion", t, r)
					if job == "prune-expired-deliveries" && t == "deliveries" && r["completed_at"] == "NULL" {
						// the same observation is the retention promise broken: the
						// delivery was deliverable and its retention had not ended
						w.violate("C14", "expiry-sweep-removed-unexpired-delivery", "%s (minAge %v) at %s removed outstanding delivery row %v whose retention ends only at %s", job, minAge, ts(hi), r["id"], r["expires_at"])
					}
				}
				continue
			}
			for c, v := range r {
				if ra[c] == v {
					continue
				}
				switch {
				case t == "deliveries" && c == "not_before_id" && ra[c] == "NULL":
					if _, gone := idx(after, "deliveries")[v]; gone {
						bad("cleared-live-predecessor-link", "cleared not_before_id of delivery %s although the predecessor row %s still exists", id, v)
					}
				case job == ExpireJob && t == "subscriptions" && (c == "deleted_at" || c == "live"):
					x, set := parseT(r["expires_at"])
					if !(set && x.Before(hi)) {
						bad("expired-live-subscription", "soft-deleted subscription %s whose expires_at %s is not in the past", r["name"], r["expires_at"])
					}
				case t == "subscriptions" && c == "dead_letter_topic_id" && ra[c] == "NULL" && r["deleted_at"] != "NULL":
					// a soft-deleted subscription is invisible to clients
				case t == "subscriptions" && c == "dead_letter_topic_id" && ra[c] == "NULL" && r["deleted_at"] == "NULL":
					bad("live-subscription-config-changed", "live subscription %s lost its dead-letter policy (dead_letter_topic_id %s -> NULL)", r["name"], v)
				default:
					bad("changed-column:"+t+"."+c, "changed %s[%s].%s from %q to %q", t, r["name"], c, v, ra[c])
				}
			}
		}
		for id := range am {
			if _, was := idx(before, t)[id]; !was {
				bad("created-row:"+t, "created a %s row %s", t, id)
			}
		}
	}
	_ = btopics
	_ = bdels
	if deleted > maxDelete {
		bad("more-than-max-delete", "deleted %d rows, max_delete is %d", deleted, maxDelete)
	}
	if jerr == nil && job != ExpireJob && deleted != n {
		bad("count-mismatch", "reported %d deleted rows, %d rows are gone", n, deleted)
	}
	if jerr != nil && deleted > 0 {
		bad("error-but-deleted", "returned an error (%v) yet %d rows are gone", jerr, deleted)
	}
	w.stat("job_diffs_checked", 1)
	w.stat("job_rows_checked_against_criterion", int64(deleted))
}

func (w *World) applyExpiry(lo, hi time.Time, n, maxDelete int) {
	var certain, possible []*Sub
	for _, s := range w.Subs {
		if s.Wild {
			possible = append(possible, s)
			continue
		}
		dl := Iv{s.Activity.Lo.Add(s.Cfg.TTL), s.Activity.Hi.Add(s.Cfg.TTL)}
		switch {
		case dl.Hi.Before(lo):
			certain = append(certain, s)
		case !dl.Lo.After(hi):
			possible = append(possible, s)
		}
	}
	if len(possible) == 0 {
		want := len(certain)
		if want > maxDelete {
			want = maxDelete
		}
		if n != want {
			sig := "expired-too-early"
			if n < want {
				sig = "not-expired"
			}
			w.violate("C14", sig, "expiry job at %s deleted %d subscriptions, model expects %d (certainly past TTL: %s)", ts(lo), n, want, subNames(certain))
		}
	}
	if len(possible) == 0 && len(certain) <= maxDelete {
		for _, s := range certain {
			s.Live = false
			delete(w.Subs, s.Name)
			w.stat("subs_expired", 1)
		}
		return
	}
	// cannot tell which ones went: all candidates become wild
	for _, s := range append(certain, possible...) {
		s.Wild = true
		w.stat("wild_sub_expiry", 1)
	}
}

func subNames(ss []*Sub) string {
	var n []string
	for _, s := range ss {
		n = append(n, s.Name)
	}
	sort.Strings(n)
	return strings.Join(n, ",")
}

// Sweep runs the dead-letter sweep action the way the service does.
func (w *World) Sweep(maxDeliveries int) {
	w.slot()
	lo := w.now()
	a := actions.NewDeadLetterDeliveries(actions.DeadLetterDeliveriesParams{MaxDeliveries: maxDeliveries})
	err := w.E.Client.DoCtxTx(w.Ctx, nil, a.Execute)
	hi := w.now()
	n := -1
	if r, ok := a.Results(); ok {
		n = r.NumDeadLettered
	}
	w.rec("sweep", fmt.Sprintf("max=%d", maxDeliveries), fmt.Sprintf("n=%d err=%v", n, err))
	if err != nil {
		w.violate("C06", "sweep-error", "dead-letter sweep failed: %v", err)
		return
	}
	var certain []*Del
	uncertain := 0
	for _, s := range w.Subs {
		if !s.hasDL() || s.Decoy {
			continue
		}
		for _, d := range s.Dels {
			if d.State != Out || !d.dlEligible() {
				continue
			}
			if s.Wild || d.Wild {
				uncertain++
				continue
			}
			if s.dlVoid() {
				if d.whyOpt(may, lo, hi, true) == "" {
					uncertain++
					d.Wild = true
					w.stat("wild_deadletter_topic_deleted", 1)
				}
				continue
			}
			// the sweep ignores ordering
			saveOrd := s.Cfg.Ordered
			s.Cfg.Ordered = false
			wm, wy := d.why(must, lo, hi), d.why(may, lo, hi)
			s.Cfg.Ordered = saveOrd
			if wm == "" {
				certain = append(certain, d)
			} else if wy == "" {
				uncertain++
				d.Wild = true
				w.stat("wild_uncertain_deadletter", 1)
			}
		}
	}
	w.stat("sweeps", 1)
	if uncertain == 0 {
		want := len(certain)
		if want > maxDeliveries {
			want = maxDeliveries
		}
		if n != want {
			w.violate("C06", "sweep-count", "dead-letter sweep at %s retired %d deliveries, model expects %d", ts(lo), n, want)
		}
	}
	if len(certain) <= maxDeliveries {
		for _, d := range certain {
			w.forward(d, Iv{lo, hi})
		}
	} else {
		for _, d := range certain {
			d.Wild = true
			w.stat("wild_limited_sweep", 1)
		}
	}
}

// sameKey describes the other deliveries of d's ordering key (diagnostics).
func sameKey(d *Del) string {
	if !d.Sub.Cfg.Ordered || d.Msg.Key == "" {
		return ""
	}
	var b strings.Builder
	b.WriteString("; same-key deliveries:")
	for _, p := range d.Sub.Dels {
		if p != d && p.Msg.Key == d.Msg.Key {
			fmt.Fprintf(&b, " [seq=%d %s %s att=%d exp=%s wild=%v]", p.ArrSeq, short(p.Msg.ID), p.State, p.Attempts, p.Exp, p.Wild)
		}
	}
	return b.String()
}

// rowDiag reads the delivery row (and its predecessor chain) behind d. Only
// used to annotate a violation that was already decided.
func (w *World) rowDiag(d *Del) string {
	var b strings.Builder
	b.WriteString("; rows:")
	q := `SELECT d.id, d.attempts, d.attempt_at, d.completed_at, d.expires_at, d.not_before_id, d.message_id FROM deliveries d JOIN subscriptions s ON d.subscription_id = s.id WHERE s.name = ? AND s.deleted_at IS NULL AND d.message_id = ?`
	args := []any{d.Sub.Name, d.Msg.ID}
	for depth := 0; depth < 4; depth++ {
		rows, err := w.E.RawDB().QueryContext(context.Background(), q, args...)
		if err != nil {
			return b.String() + " (query failed: " + err.Error() + ")"
		}
		var next any
		n := 0
		for rows.Next() {
			var id, nb, mid any
			var att int
			var at, ca, ea any
			if err := rows.Scan(&id, &att, &at, &ca, &ea, &nb, &mid); err != nil {
				rows.Close()
				return b.String() + " (scan failed: " + err.Error() + ")"
			}
			fmt.Fprintf(&b, " {id=%s msg=%s attempts=%d attempt_at=%v completed_at=%v expires_at=%v not_before=%v}", short(idString(id)), short(idString(mid)), att, tsAny(at), tsAny(ca), tsAny(ea), short(idString(nb)))
			next = nb
			n++
		}
		rows.Close()
		if n == 0 {
			b.WriteString(" (no row)")
		}
		if next == nil {
			break
		}
		q = `SELECT d.id, d.attempts, d.attempt_at, d.completed_at, d.expires_at, d.not_before_id, d.message_id FROM deliveries d WHERE d.id = ?`
		args = []any{idString(next)}
		b.WriteString(" <-")
	}
	return b.String()
}

// rowState: "completed", "expired", "gone" or "outstanding" for the delivery row
// behind d (used only to classify a violation that has already been decided)
func (w *World) rowState(d *Del, at time.Time) string {
	q := `SELECT d.completed_at, d.expires_at FROM deliveries d JOIN subscriptions s ON d.subscription_id = s.id WHERE s.name = ? AND s.deleted_at IS NULL AND d.message_id = ?`
	rows, err := w.E.RawDB().QueryContext(context.Background(), q, d.Sub.Name, d.Msg.ID)
	if err != nil {
		return "unknown"
	}
	defer rows.Close()
	state := "gone"
	for rows.Next() {
		var ca, ea any
		if rows.Scan(&ca, &ea) != nil {
			return "unknown"
		}
		switch e, _ := ea.(time.Time); {
		case ca != nil:
			state = "completed"
		case !e.IsZero() && !e.After(at):
			state = "expired"
		default:
			return "outstanding"
		}
	}
	return state
}

// chainedTo: does d's delivery row name p's delivery row as its predecessor?
func (w *World) chainedTo(d, p *Del) bool {
	q := `SELECT COUNT(*) FROM deliveries d JOIN subscriptions s ON d.subscription_id = s.id JOIN deliveries pd ON d.not_before_id = pd.id WHERE s.name = ? AND s.deleted_at IS NULL AND d.message_id = ? AND pd.message_id = ?`
	var n int
	if err := w.E.RawDB().QueryRowContext(context.Background(), q, d.Sub.Name, d.Msg.ID, p.Msg.ID).Scan(&n); err != nil {
		return true // cannot tell: do not file it under the known finding
	}
	return n > 0
}

func tsAny(v any) string {
	switch x := v.(type) {
	case nil:
		return "NULL"
	case time.Time:
		return ts(x)
	}
	return fmt.Sprint(v)
}

// dueDiag lists delivery rows that are due in the database but that the model
// does not hold as outstanding (diagnostics for an already decided violation).
func (w *World) dueDiag(s *Sub, now time.Time) string {
	var b strings.Builder
	b.WriteString("; due rows unknown to the model:")
	rows, err := w.E.RawDB().QueryContext(context.Background(), `SELECT d.id, d.message_id, d.attempts, d.attempt_at, d.expires_at FROM deliveries d JOIN subscriptions s ON d.subscription_id = s.id WHERE s.name = ? AND s.deleted_at IS NULL AND d.completed_at IS NULL`, s.Name)
	if err != nil {
		return b.String() + err.Error()
	}
	defer rows.Close()
	for rows.Next() {
		var id, mid, at, ea any
		var att int
		if rows.Scan(&id, &mid, &att, &at, &ea) != nil {
			continue
		}
		known := false
		for _, d := range s.ByMsg[idString(mid)] {
			if d.State == Out && (d.AckID == "" || d.AckID == idString(id)) {
				known = true
			}
		}
		if !known {
			st := "?"
			for _, d := range s.ByMsg[idString(mid)] {
				st = fmt.Sprintf("%s wild=%v att=%d", d.State, d.Wild, d.Attempts)
			}
			fmt.Fprintf(&b, " {id=%s msg=%s attempts=%d attempt_at=%s expires_at=%s model:%s}", short(idString(id)), short(idString(mid)), att, tsAny(at), tsAny(ea), st)
		}
	}
	return b.String()
}

func (w *World) delsOfMsg(m *Msg) string {
	var b strings.Builder
	for _, s := range w.AllSubs {
		for _, d := range s.ByMsg[m.ID] {
			fmt.Fprintf(&b, " %s", d)
		}
	}
	return b.String()
}

// isDLTarget: some subscription (any generation) dead-letters into s's topic.
func (w *World) isDLTarget(s *Sub) bool {
	for _, x := range w.AllSubs {
		if x.everDL(s.Topic) {
			return true
		}
	}
	return false
}

// wildSource: the model lost track of a delivery of m on a subscription that
// dead-letters into s's topic, so a forwarded copy may legitimately appear on s.
func (w *World) wildSource(s *Sub, m *Msg) bool {
	for _, x := range w.AllSubs {
		if !x.everDL(s.Topic) {
			continue
		}
		if x.Wild {
			return true
		}
		for _, d := range x.ByMsg[m.ID] {
			if d.Wild {
				return true
			}
		}
	}
	return false
}

// directPred describes the state of the immediate same-key predecessor of d
// (the shape of an ordering violation: "out" = the very predecessor is still
// outstanding; anything else = an older message was overtaken after the link
// in between went away).
func (w *World) directPred(d *Del, hi time.Time) string {
	var ip *Del
	for _, p := range d.Sub.Dels {
		if p == d || p.Msg.Key != d.Msg.Key || p.Forwarded || p.ArrSeq >= d.ArrSeq {
			continue
		}
		if ip == nil || p.ArrSeq > ip.ArrSeq {
			ip = p
		}
	}
	switch {
	case ip == nil:
		return "none"
	case ip.Wild:
		// the model lost track of it: classify by what its row says. An outstanding
		// one that d's row is not chained to was settled or expired when d was
		// published and has been revived since (the chain is fixed at publish time:
		// the known shape); one that d *is* chained to should have held d back
		st := w.rowState(ip, hi)
		if st == "outstanding" {
			if w.chainedTo(d, ip) {
				st += "-chained"
			} else {
				st += "-unchained"
			}
		}
		return "wild-" + st
	case ip.State == Out && ip.expiredPossible(hi):
		return "expired"
	}
	return ip.State.String()
}
