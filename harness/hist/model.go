// Package hist is the history engine: a seeded adaptive generator drives the
// real mmmbbb handlers (Rig V) with long client-boundary histories, and a
// reference model - written from the property statements, not from the code -
// checks every reply.
//
// The model keeps, per (subscription generation, message), a delivery record.
// Every instant the server picks inside a request is only known to lie between
// the request's call and return instants, so leases, expiries and arrivals are
// intervals, and every check is split into MUST (certain) and MAY (possible).
package hist

import (
	"fmt"
	"sort"
	"time"

	"verif/harness/ref"
)

// Iv is a closed interval of (virtual) instants.
type Iv struct{ Lo, Hi time.Time }

func (i Iv) Add(d time.Duration) Iv     { return Iv{i.Lo.Add(d), i.Hi.Add(d)} }
func (i Iv) AddJ(d, j time.Duration) Iv { return Iv{i.Lo.Add(d), i.Hi.Add(d + j)} }
func (i Iv) String() string             { return fmt.Sprintf("[%s,%s]", ts(i.Lo), ts(i.Hi)) }
func maxT(a, b time.Time) time.Time {
	if a.After(b) {
		return a
	}
	return b
}

var epoch0 time.Time

func ts(t time.Time) string {
	if t.IsZero() {
		return "-"
	}
	return fmt.Sprintf("%.6f", t.Sub(epoch0).Seconds())
}

type DelState int

const (
	Out DelState = iota
	Acked
	DeadLettered
	Seeked
)

func (s DelState) String() string { return [...]string{"out", "acked", "deadlettered", "seeked"}[s] }

type Topic struct {
	Name string
	Gen  int
	Live bool
	// last operation (index, subscription) that changed delivery state of one
	// of the topic's subscriptions on purpose (ack, modack, seek, delete, update)
	Mut   int
	MutBy *Sub
	Subs  []*Sub // every subscription generation ever attached to this topic generation
}

type SubCfg struct {
	Filter      string
	FilterAST   *ref.Node
	Ordered     bool
	MinB, MaxB  time.Duration // 0 = absent
	DLTopic     *Topic        // nil = no dead-letter policy
	MaxAttempts int
	Retention   time.Duration
	TTL         time.Duration
	Delay       time.Duration
	Labels      map[string]string
}

type Sub struct {
	Name     string
	Gen      int
	Live     bool
	Topic    *Topic
	Cfg      SubCfg
	Activity Iv // last activity that restarts the expiration clock
	Dels     []*Del
	ByMsg    map[string][]*Del
	Decoy    bool // target of deliberately foreign requests: excluded from oracles
	Wild     bool // model lost track (e.g. expiry inside an uncertainty window)
	// bookkeeping for evidence
	IsDLTarget bool
	// Reshuffled: a seek or a retention update was tried on this incarnation
	// (the only client operations that settle, revive or expire same-key
	// messages out of publish order)
	Reshuffled bool
	// DLEver: every topic this subscription has ever dead-lettered into (its
	// policy can be changed; copies forwarded under an earlier policy remain)
	DLEver map[*Topic]bool
}

type Msg struct {
	ID    string
	Topic *Topic
	Data  []byte
	Attrs map[string]string
	Key   string
	Pub   Iv
	Seq   int
	// PubExact is the publish time the server reports for the message (known
	// once a delivery of it has been observed)
	PubExact time.Time
}

type Del struct {
	Sub             *Sub
	Msg             *Msg
	AckID           string
	State           DelState
	Attempts        int
	Lease           Iv // attempt_at lies in here
	Exp             Iv // expires_at lies in here
	ExpBeforeRevive Iv // what Exp was before the last seek revived the delivery
	Arr             Iv // arrival on this subscription (publish, or dead-letter forward)
	ArrSeq          int
	Forwarded       bool // arrived by dead-letter forwarding
	Revived         bool // made outstanding again by a seek and not delivered since
	Wild            bool // model cannot predict this delivery any more
	Lost            bool // a loss was already reported
	LastDeliv       Iv   // instant of the last delivery
	LeaseWhy        string
	DoneAt          Iv
	countedExpired  bool
	pruneChecked    bool
	SeenAt          int // operation index at which the model last confirmed this record
}

func (d *Del) String() string {
	return fmt.Sprintf("{sub=%s#%d msg=%s key=%q %s att=%d lease=%s exp=%s arr=%s fwd=%v wild=%v}",
		d.Sub.Name, d.Sub.Gen, short(d.Msg.ID), d.Msg.Key, d.State, d.Attempts, d.Lease, d.Exp, d.Arr, d.Forwarded, d.Wild)
}

func short(id string) string {
	if len(id) > 8 {
		return id[:8]
	}
	return id
}

type Snap struct {
	Name  string
	Sub   *Sub
	Topic *Topic
	T     Iv
	U     map[string]bool // message ids outstanding and certainly unexpired at snapshot time
	Unc   map[string]bool // message ids whose status at snapshot time is uncertain
}

// ---- eligibility ----------------------------------------------------------

type certainty int

const (
	must certainty = iota
	may
)

// expiredCertain: expires_at <= t for sure.
func (d *Del) expiredCertain(t time.Time) bool { return !d.Exp.Hi.After(t) }

// expiredPossible: expires_at <= t possibly.
func (d *Del) expiredPossible(t time.Time) bool { return !d.Exp.Lo.After(t) }

// why returns "" if d is deliverable in the given certainty mode for a request
// spanning [lo,hi]; otherwise the reason it is not.
func (d *Del) why(c certainty, lo, hi time.Time) string { return d.whyOpt(c, lo, hi, false) }

// whyOpt is why with the ordering rule optionally ignored.
func (d *Del) whyOpt(c certainty, lo, hi time.Time, noOrder bool) string {
	if d.State != Out {
		return d.State.String()
	}
	if c == must {
		if d.Wild || d.Sub.Wild || d.Lost {
			return "wild"
		}
		if d.expiredPossible(hi) {
			return "maybe-expired"
		}
		if d.Lease.Hi.After(lo) {
			return "lease-maybe-running"
		}
	} else {
		if d.Wild || d.Sub.Wild {
			return ""
		}
		if d.expiredCertain(lo) {
			return "expired"
		}
		if d.Lease.Lo.After(hi) {
			return "lease-running"
		}
	}
	if d.Sub.Cfg.Ordered && d.Msg.Key != "" && !noOrder {
		for _, p := range d.Sub.Dels {
			if p == d || p.Msg.Key != d.Msg.Key {
				continue
			}
			// "earlier-published" is unambiguous only when publish order and arrival
			// order on this subscription agree (they can differ for dead-letter
			// forwarded copies): violations are only called on unambiguous pairs,
			// and a message is only demanded when no ambiguous pair could hold it
			earlierArr := p.ArrSeq < d.ArrSeq
			earlierPub := p.Msg.Seq < d.Msg.Seq
			if c == must {
				// a record the model lost track of (or adopted late: its arrival
				// position is then unknown as well) may sit anywhere in the chain
				if p.Wild {
					return "blocked-by-predecessor"
				}
				if !(p.ArrSeq <= d.ArrSeq || earlierPub) {
					continue
				}
				// a predecessor (or same-instant sibling) must be certainly settled;
				// one the model lost track of may be outstanding
				if p.Wild || (p.State == Out && !p.expiredCertain(lo)) {
					return "blocked-by-predecessor"
				}
			} else {
				if !(earlierArr && earlierPub) || p.Wild || p.State != Out {
					continue
				}
				// how a dead-letter-forwarded copy is ordered relative to the other
				// messages of an ordered subscription is not specified by the
				// statement (publish order and arrival order differ); the random
				// histories never call a violation on such a pair - a dedicated
				// scenario (C05 "forwarded") documents what the code does
				if p.Forwarded || d.Forwarded {
					continue
				}
				if !p.expiredPossible(hi) {
					return "blocked-by-predecessor"
				}
			}
		}
	}
	return ""
}

// dlVoid: the subscription has a dead-letter policy whose topic was deleted.
// This used to be treated as unspecified (whether the policy survived depended on
// whether prune-deleted-topics had removed the topic row and the foreign key had
// silently cleared the policy). Since the repair of that defect (/repo 5524a1e)
// the row stays while a live subscription refers to it, and the behaviour is
// definite: the message is retired after its N deliveries and forwarded to
// nobody - not even to live subscriptions of the deleted topic (forward() does
// exactly that for a topic that is not live). Kept as a named predicate, always
// false, so that the call sites read as before.
func (s *Sub) dlVoid() bool { return false }

func (s *Sub) everDL(t *Topic) bool { return s.Cfg.DLTopic == t || s.DLEver[t] }

func (s *Sub) hasDL() bool { return s.Cfg.DLTopic != nil && s.Cfg.MaxAttempts > 0 }

// dlEligible: the next time d is due it must be dead-lettered, not delivered.
func (d *Del) dlEligible() bool { return d.Sub.hasDL() && d.Attempts >= d.Sub.Cfg.MaxAttempts }

func (s *Sub) backoff(n int) time.Duration { return ref.Backoff(s.Cfg.MinB, s.Cfg.MaxB, n) }

func (s *Sub) outstanding() []*Del {
	var out []*Del
	for _, d := range s.Dels {
		if d.State == Out {
			out = append(out, d)
		}
	}
	return out
}

func sortDels(ds []*Del) {
	sort.Slice(ds, func(i, j int) bool { return ds[i].ArrSeq < ds[j].ArrSeq })
}
