package hist

import (
	"fmt"
	"sync/atomic"
	"time"

	"google.golang.org/grpc/codes"

	"go.6river.tech/mmmbbb/grpc/pubsubpb"

	"verif/harness/rig"
	"verif/harness/seam"
)

// StreamSession opens a StreamingPull on a subscription, lets it run to
// quiescence, optionally acks / nacks part of what was sent on the stream,
// lets it run to quiescence again and closes it. The virtual clock does not
// move (except for statement ticks), so every fetch of the session is one
// "pull" happening inside [lo,hi].
func (w *World) StreamSession(name string, maxMsgs int64, ackFrac, nackFrac float64) {
	w.slot()
	// a stream has internal concurrency (reader / sender / refresher): the
	// statement tick (a virtual sleep inside a transaction) must be off, or a
	// goroutine sleeping inside a write transaction starves one that is
	// busy-waiting in SQLite for the write lock
	tick := seam.C.Tick()
	seam.C.SetTick(0)
	defer seam.C.SetTick(tick)
	s, live := w.Subs[name]
	// some sessions send their ack / nack request while a statement of the stream
	// fails: either the stream ends with an error (nothing was confirmed), or it
	// goes on - and then what it was told is as binding as ever
	faultActor := ""
	sctx := w.Ctx
	if w.StreamAckFaultPct > 0 && live && w.R.Intn(100) < w.StreamAckFaultPct {
		faultActor = fmt.Sprintf("faulty-stream-%d", w.opn())
		sctx = w.E.Actor(faultActor)
	}
	fs := rig.NewFakeStream(sctx)
	// virtual time does not move during a session (nobody sleeps), so no lease can
	// run out in it: a message may be sent, and once more after its nack - a
	// stream that keeps re-sending one ack id is handing it out inside its lease,
	// and would keep this session from ever becoming quiescent
	var respin atomic.Int64
	resent := map[string]int{}
	fs.OnSend = func(b rig.SentBatch) {
		for _, rm := range b.Msgs {
			resent[rm.AckId]++
			if resent[rm.AckId] == 6 {
				respin.Store(int64(resent[rm.AckId]))
				fs.Cancel()
			}
		}
	}
	done := make(chan error, 1)
	// when the handler returns on its own the fake stream is cancelled, so a later
	// Push does not wait for a reader that is gone
	selfExit := false
	go func() {
		err := w.E.Sub.StreamingPull(fs)
		if fs.Context().Err() == nil {
			selfExit = true
		}
		fs.Cancel()
		done <- err
	}()
	lo := w.now()
	fs.Push(&pubsubpb.StreamingPullRequest{Subscription: name, StreamAckDeadlineSeconds: 10, MaxOutstandingMessages: maxMsgs})
	rig.Quiesce()
	if !live {
		fs.Cancel()
		err := <-done
		w.rec("stream", name+" (dead)", code(err).String())
		w.expectCode("C12", "StreamingPull(dead sub)", err, codes.NotFound)
		return
	}
	capacity := int(maxMsgs)
	if capacity <= 0 {
		capacity = 1000
	}
	pending := map[string]bool{}
	total := 0
	idleCheck := true
	process := func() {
		hi := w.now()
		batches := fs.Take()
		incoming := 0
		for _, b := range batches {
			incoming += len(b.Msgs)
		}
		full := !idleCheck || len(pending)+incoming >= capacity
		// dead-letter-eligible due deliveries are retired by the stream's own
		// fetches, possibly before later fetches of this same session: settle
		// them first
		for _, d := range s.Dels {
			if d.State != Out || !d.dlEligible() || d.Wild {
				continue
			}
			switch {
			case s.dlVoid():
				if d.whyOpt(may, lo, hi, true) == "" {
					d.Wild = true
					w.stat("wild_deadletter_topic_deleted", 1)
				}
			case !full && d.why(must, lo, hi) == "":
				w.forward(d, Iv{lo, hi})
			case d.whyOpt(may, lo, hi, true) == "":
				d.Wild = true
				w.stat("wild_stream_deadletter", 1)
			}
		}
		for _, b := range batches {
			room := capacity - len(pending)
			for _, rm := range b.Msgs {
				if pending[rm.AckId] {
					room++ // a re-send of something already counted
				}
			}
			if room > 100 {
				room = 100
			}
			w.checkDeliveries(s, "StreamingPull", b.Msgs, room, lo, hi, false)
			for _, rm := range b.Msgs {
				pending[rm.AckId] = true
			}
			total += len(b.Msgs)
			if len(pending) > capacity {
				w.violate("C11", "outstanding-exceeds-max", "stream on %s has %d outstanding > max_outstanding_messages %d", name, len(pending), capacity)
			}
		}
		w.touch(s, lo, hi)
		// the streamer is idle now: if it has room, nothing deliverable may remain
		if idleCheck && len(pending) < capacity && !s.Wild && !s.Decoy {
			for _, d := range s.Dels {
				if d.State == Out && !d.dlEligible() && d.why(must, lo, hi) == "" {
					p, sig := propForMiss(d, hi)
					w.violate(p, "stream:"+sig, "stream on %s#%d idle at %s with %d/%d outstanding did not send %s%s%s", name, s.Gen, ts(hi), len(pending), capacity, d, sameKey(d), w.rowDiag(d))
					w.siblingBlame(d, "stream:"+sig, fmt.Sprintf("stream on %s did not send %s", name, d))
					d.Lost = true
				}
			}
			w.stat("must_checks", 1)
		}
	}
	process()
	faultEnded := false
	var earlyErr error
	ended, halfClosed := false, false
	// ack / nack part of it on the stream
	var acks, nacks []string
	var pids []string
	for id := range pending {
		pids = append(pids, id)
	}
	sortStrings(pids)
	for _, id := range pids {
		switch x := w.R.Float64(); {
		case x < ackFrac:
			acks = append(acks, id)
		case x < ackFrac+nackFrac:
			nacks = append(nacks, id)
		}
	}
	// also acknowledge, on this stream, ids that were handed out earlier by other
	// means (unary pulls, earlier streams): a streaming ack is an ack
	if ackFrac > 0 && live {
		for _, id := range deliveredIDs(s, true) {
			if !pending[id] && w.R.Intn(2) == 0 {
				acks = append(acks, id)
				w.stat("stream_acks_of_foreign_deliveries", 1)
			}
		}
	}
	sortStrings(acks)
	sortStrings(nacks)
	// deadline extensions ride in the same request as the nacks: every ack id has
	// its own modify_deadline_seconds
	extends := map[string]int32{}
	var extIDs []string
	if w.StreamExtends {
		chosen := map[string]bool{}
		for _, id := range acks {
			chosen[id] = true
		}
		for _, id := range nacks {
			chosen[id] = true
		}
		for _, id := range pids {
			if !chosen[id] && w.R.Intn(3) == 0 {
				extends[id] = []int32{5, 30, 30}[w.R.Intn(3)]
				extIDs = append(extIDs, id)
			}
		}
	}
	if len(acks)+len(nacks)+len(extIDs) > 0 {
		req := &pubsubpb.StreamingPullRequest{AckIds: acks}
		for _, id := range nacks {
			req.ModifyDeadlineAckIds = append(req.ModifyDeadlineAckIds, id)
			req.ModifyDeadlineSeconds = append(req.ModifyDeadlineSeconds, 0)
		}
		for _, id := range extIDs {
			req.ModifyDeadlineAckIds = append(req.ModifyDeadlineAckIds, id)
			req.ModifyDeadlineSeconds = append(req.ModifyDeadlineSeconds, extends[id])
		}
		if len(nacks) > 0 && len(extIDs) > 0 {
			w.stat("stream_requests_mixing_nack_and_extension", 1)
		}
		alo := w.now()
		faultHit := false
		if faultActor != "" {
			seam.C.ResetCounts()
			seam.C.SetFault(&seam.Fault{Actor: faultActor, K: 1 + w.R.Intn(6), Mode: seam.FaultError})
		}
		fs.Push(req)
		// a client that is done: it half-closes right behind its last request. The
		// call then ends with OK, and an OK covers what was sent before the close
		if faultActor == "" && w.StreamAckFaultPct > 0 && w.R.Intn(3) == 0 {
			fs.CloseSend()
			rig.Quiesce()
			select {
			case earlyErr = <-done:
				ended = true
				halfClosed = true
				w.stat("stream_half_closed_behind_the_last_request", 1)
			default:
				// the handler has not returned although its input ended: it will when
				// the stream is cancelled below
			}
		}
		rig.Quiesce()
		if faultActor != "" {
			faultHit = seam.C.FaultHits() > 0
			seam.C.SetFault(nil)
		}
		ahi := w.now()
		if halfClosed && earlyErr != nil {
			// ended with an error: nothing was confirmed
			for _, ids := range [][]string{acks, nacks, extIDs} {
				for _, id := range ids {
					if d := w.ByAck[id]; d != nil && d.State == Out {
						d.Wild = true
					}
				}
			}
			acks, nacks, extIDs = nil, nil, nil
		}
		if halfClosed {
			idleCheck = false
		}
		if faultHit {
			w.stat("stream_requests_under_a_storage_fault", 1)
		}
		if faultHit && fs.Context().Err() != nil {
			// the stream ended: nothing in the request was confirmed. Which of the
			// stream's transactions the fault hit is internal, so whether the
			// request took effect before the stream died is not known
			w.stat("stream_ended_by_the_fault", 1)
			for _, ids := range [][]string{acks, nacks, extIDs} {
				for _, id := range ids {
					if d := w.ByAck[id]; d != nil && d.State == Out {
						d.Wild = true
					}
				}
			}
			faultEnded = true
			acks, nacks, extIDs = nil, nil, nil
			idleCheck = false
		} else if faultHit {
			w.stat("stream_survived_the_fault", 1)
		}
		for _, id := range acks {
			if d := w.ByAck[id]; d != nil && d.State == Out {
				d.State = Acked
				d.DoneAt = Iv{alo, ahi}
				w.stat("acks_effective", 1)
				w.stat("stream_acks", 1)
			}
			delete(pending, id)
		}
		for _, id := range nacks {
			if d := w.ByAck[id]; d != nil && d.State == Out {
				d.Lease = Iv{alo, ahi}
				d.LeaseWhy = "stream-nack"
				w.stat("stream_nacks", 1)
				if d.dlEligible() {
					// whether the stream's next fetch already retired it is internal
					d.Wild = true
					w.stat("wild_stream_nack_deadletter", 1)
				}
			}
			// a nack releases the slot; the message may be sent again in this session
			delete(pending, id)
		}
		for _, id := range extIDs {
			if d := w.ByAck[id]; d != nil && d.State == Out {
				dd := time.Duration(extends[id]) * time.Second
				d.Lease = Iv{maxT(d.Lease.Lo, alo.Add(dd)), maxT(d.Lease.Hi, ahi.Add(dd))}
				w.stat("stream_extensions", 1)
			}
		}
		if len(nacks) > 0 {
			idleCheck = false
		}
		lo = alo
		process()
	}
	fs.Cancel()
	err := earlyErr
	if !ended {
		err = <-done
	}
	rig.Quiesce()
	w.rec("stream", fmt.Sprintf("%s max=%d acks=%d nacks=%d", name, maxMsgs, len(acks), len(nacks)), fmt.Sprintf("%s sent=%d selfExit=%v err=%v", code(err), total, selfExit, err))
	if selfExit && !s.Wild && !faultEnded && !halfClosed {
		w.violate("C01", "stream-ended-by-server", "stream on live subscription %s#%d was ended by the server: %v", name, s.Gen, err)
	}
	w.stat("stream_sessions", 1)
	w.stat("stream_messages", int64(total))
	if respin.Load() > 0 && live && !s.Wild {
		w.violate("C04", "resent-inside-lease:stream-loop", "stream on %s#%d sent one ack id %d times within a single session in which no time passed (a message may be re-sent once, after its nack): it is handed out again inside its lease", name, s.Gen, respin.Load())
	}
}

var _ = time.Now

func sortStrings(s []string) {
	for i := 1; i < len(s); i++ {
		for j := i; j > 0 && s[j] < s[j-1]; j-- {
			s[j], s[j-1] = s[j-1], s[j]
		}
	}
}
