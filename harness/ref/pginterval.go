package ref

import (
	"fmt"
	"strings"
)

// PGInterval renders an interval given as (days, microseconds) - months = 0 -
// the way PostgreSQL prints it with IntervalStyle = 'postgres':
//
//	[N day[s]] [[-]HH:MM:SS[.ffffff]]
//
// The time part is omitted when it is zero and a day part is present; an
// all-zero interval is "00:00:00". Hours are not folded into days.
func PGInterval(days int64, micros int64) string {
	var parts []string
	if days != 0 {
		unit := "days"
		if days == 1 {
			unit = "day"
		}
		parts = append(parts, fmt.Sprintf("%d %s", days, unit))
	}
	if micros != 0 || days == 0 {
		sign := ""
		m := micros
		if m < 0 {
			sign = "-"
			m = -m
		}
		h := m / 3600000000
		m -= h * 3600000000
		mi := m / 60000000
		m -= mi * 60000000
		s := m / 1000000
		f := m - s*1000000
		t := fmt.Sprintf("%s%02d:%02d:%02d", sign, h, mi, s)
		if f != 0 {
			t += "." + strings.TrimRight(fmt.Sprintf("%06d", f), "0")
		}
		parts = append(parts, t)
	}
	return strings.Join(parts, " ")
}
