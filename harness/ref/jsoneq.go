package ref

import (
	"bytes"
	"encoding/json"
	"io"
)

// JSONEqual compares two JSON documents as values: object key order and
// insignificant whitespace and string escape forms do not matter; numbers are
// compared by their literal text (no float rounding).
func JSONEqual(a, b []byte) bool {
	va, ok1 := decode(a)
	vb, ok2 := decode(b)
	if !ok1 || !ok2 {
		return bytes.Equal(a, b)
	}
	return eqv(va, vb)
}

// ValidJSON says whether b is exactly one JSON document.
func ValidJSON(b []byte) bool { _, ok := decode(b); return ok }

func decode(b []byte) (any, bool) {
	d := json.NewDecoder(bytes.NewReader(b))
	d.UseNumber()
	var v any
	if err := d.Decode(&v); err != nil {
		return nil, false
	}
	if _, err := d.Token(); err != io.EOF {
		return nil, false
	}
	return v, true
}

func eqv(a, b any) bool {
	switch x := a.(type) {
	case map[string]any:
		y, ok := b.(map[string]any)
		if !ok || len(x) != len(y) {
			return false
		}
		for k, v := range x {
			w, ok := y[k]
			if !ok || !eqv(v, w) {
				return false
			}
		}
		return true
	case []any:
		y, ok := b.([]any)
		if !ok || len(x) != len(y) {
			return false
		}
		for i := range x {
			if !eqv(x[i], y[i]) {
				return false
			}
		}
		return true
	case json.Number:
		y, ok := b.(json.Number)
		return ok && x.String() == y.String()
	default:
		return a == b
	}
}
