// Package ref contains small, independent reference implementations that the
// monitors compare mmmbbb against: the Pub/Sub filter language (token-level
// recognizer, parser, three-valued evaluator, printer), the retry backoff
// formula and the PostgreSQL interval text format.
//
// Nothing in this package imports mmmbbb.
package ref

import (
	"fmt"
	"strconv"
	"strings"
	"unicode"
)

// ---------------------------------------------------------------- tokens

type TokKind int

const (
	TIdent  TokKind = iota // bare identifier (attribute name, or a keyword-like word)
	TString                // quoted string; Val is the unquoted value
	TPunct                 // one of : . = != ( ) , -
)

type Tok struct {
	Kind TokKind
	Val  string
}

func (t Tok) String() string {
	switch t.Kind {
	case TString:
		return strconv.Quote(t.Val)
	default:
		return t.Val
	}
}

func Ident(s string) Tok { return Tok{TIdent, s} }
func Str(s string) Tok   { return Tok{TString, s} }
func P(s string) Tok     { return Tok{TPunct, s} }

// Render joins tokens into a filter string. Tokens are separated by a single
// space, except that nothing is inserted around '.' ':' '(' ')' ',' so that the
// usual compact forms are produced. Strings are rendered with strconv.Quote
// unless alt is true, in which case a back-quoted raw string is used where
// possible (text/scanner and Go both read it as the same value).
func Render(toks []Tok) string {
	var b strings.Builder
	for i, t := range toks {
		if i > 0 {
			prev := toks[i-1]
			tight := func(x Tok) bool {
				return x.Kind == TPunct && (x.Val == "." || x.Val == ":" || x.Val == "(" || x.Val == ")" || x.Val == ",")
			}
			sp := true
			if tight(prev) && prev.Val != ")" && prev.Val != "," {
				sp = false
			}
			if tight(t) && t.Val != "(" {
				sp = false
			}
			if t.Kind == TPunct && t.Val == "(" && prev.Kind == TIdent && prev.Val == "hasPrefix" {
				sp = false
			}
			if prev.Kind == TPunct && prev.Val == "-" {
				sp = false
			}
			if sp {
				b.WriteByte(' ')
			}
		}
		b.WriteString(t.String())
	}
	return b.String()
}

// RenderSpaced joins every token with the given separator (whitespace variant).
func RenderSpaced(toks []Tok, sep string) string {
	parts := make([]string, len(toks))
	for i, t := range toks {
		parts[i] = t.String()
	}
	return strings.Join(parts, sep)
}

// ---------------------------------------------------------------- AST

type NodeKind int

const (
	NHas NodeKind = iota
	NEq
	NNe
	NPrefix
	NNot
	NAnd
	NOr
)

type Node struct {
	Kind  NodeKind
	Name  string
	Value string
	Kids  []*Node // NNot: 1; NAnd/NOr: >= 2
	// syntax details (do not affect meaning)
	Dash     bool // NNot written as '-'
	QuoteNam bool // name written as a quoted string even if it is an identifier
	Paren    bool // node was written inside parentheses
}

func Has(n string) *Node       { return &Node{Kind: NHas, Name: n} }
func Eq(n, v string) *Node     { return &Node{Kind: NEq, Name: n, Value: v} }
func Ne(n, v string) *Node     { return &Node{Kind: NNe, Name: n, Value: v} }
func Prefix(n, v string) *Node { return &Node{Kind: NPrefix, Name: n, Value: v} }
func Not(k *Node) *Node        { return &Node{Kind: NNot, Kids: []*Node{k}} }
func And(k ...*Node) *Node     { return &Node{Kind: NAnd, Kids: k} }
func Or(k ...*Node) *Node      { return &Node{Kind: NOr, Kids: k} }

// IsIdent says whether s can be written as a bare identifier (the printer's and
// text/scanner's rule: letters, digits, underscore, not starting with a digit,
// non-empty).
func IsIdent(s string) bool {
	if s == "" {
		return false
	}
	for i, ch := range s {
		if !(ch == '_' || unicode.IsLetter(ch) || (unicode.IsDigit(ch) && i > 0)) {
			return false
		}
	}
	return true
}

func nameTok(n *Node) Tok {
	if n.QuoteNam || !IsIdent(n.Name) || KeywordLike(n.Name) {
		// (a bare keyword-like name is outside the specified domain)
		return Str(n.Name)
	}
	return Ident(n.Name)
}

// Tokens prints a node as a token sequence that is a sentence of the grammar:
//
//	expr := term (AND term)+ | term (OR term)+ | term
//	term := [NOT|-] ( basic | "(" expr ")" )
//
// Children of AND/OR/NOT that are themselves AND/OR are parenthesised.
func (n *Node) Tokens() []Tok {
	switch n.Kind {
	case NHas:
		return wrapParen(n, []Tok{Ident("attributes"), P(":"), nameTok(n)})
	case NEq:
		return wrapParen(n, []Tok{Ident("attributes"), P("."), nameTok(n), P("="), Str(n.Value)})
	case NNe:
		return wrapParen(n, []Tok{Ident("attributes"), P("."), nameTok(n), P("!="), Str(n.Value)})
	case NPrefix:
		return wrapParen(n, []Tok{Ident("hasPrefix"), P("("), Ident("attributes"), P("."), nameTok(n), P(","), Str(n.Value), P(")")})
	case NNot:
		var out []Tok
		if n.Dash {
			out = append(out, P("-"))
		} else {
			out = append(out, Ident("NOT"))
		}
		k := n.Kids[0]
		kt := k.Tokens()
		if k.Kind == NAnd || k.Kind == NOr || k.Kind == NNot {
			// a term is [NOT] (basic | "(" expr ")"): nested NOT and AND/OR need parens
			if !k.Paren {
				kt = append(append([]Tok{P("(")}, kt...), P(")"))
			}
		}
		return wrapParen(n, append(out, kt...))
	case NAnd, NOr:
		op := "AND"
		if n.Kind == NOr {
			op = "OR"
		}
		var out []Tok
		for i, k := range n.Kids {
			if i > 0 {
				out = append(out, Ident(op))
			}
			kt := k.Tokens()
			if (k.Kind == NAnd || k.Kind == NOr) && !k.Paren {
				kt = append(append([]Tok{P("(")}, kt...), P(")"))
			}
			out = append(out, kt...)
		}
		return wrapParen(n, out)
	}
	panic("bad node")
}

func wrapParen(n *Node, t []Tok) []Tok {
	if n.Paren {
		return append(append([]Tok{P("(")}, t...), P(")"))
	}
	return t
}

func (n *Node) String() string { return Render(n.Tokens()) }

// ---------------------------------------------------------------- evaluation

// TV is a three-valued truth value: the third value marks results the
// documentation leaves open (`!=` on an absent attribute).
type TV int

const (
	False TV = iota
	True
	Unspec
)

func (t TV) String() string { return [...]string{"false", "true", "unspecified"}[t] }

func tvNot(a TV) TV {
	switch a {
	case True:
		return False
	case False:
		return True
	}
	return Unspec
}

// Eval evaluates with Kleene propagation of Unspec.
func (n *Node) Eval(attrs map[string]string) TV {
	switch n.Kind {
	case NHas:
		_, ok := attrs[n.Name]
		return b2tv(ok)
	case NEq:
		v, ok := attrs[n.Name]
		return b2tv(ok && v == n.Value)
	case NNe:
		v, ok := attrs[n.Name]
		if !ok {
			return Unspec
		}
		return b2tv(v != n.Value)
	case NPrefix:
		v, ok := attrs[n.Name]
		return b2tv(ok && strings.HasPrefix(v, n.Value))
	case NNot:
		return tvNot(n.Kids[0].Eval(attrs))
	case NAnd:
		res := True
		for _, k := range n.Kids {
			switch k.Eval(attrs) {
			case False:
				return False
			case Unspec:
				res = Unspec
			}
		}
		return res
	case NOr:
		res := False
		for _, k := range n.Kids {
			switch k.Eval(attrs) {
			case True:
				return True
			case Unspec:
				res = Unspec
			}
		}
		return res
	}
	panic("bad node")
}

func b2tv(b bool) TV {
	if b {
		return True
	}
	return False
}

// ---------------------------------------------------------------- recognizer / parser over tokens

type tparser struct {
	toks []Tok
	pos  int
}

func (p *tparser) peek() (Tok, bool) {
	if p.pos < len(p.toks) {
		return p.toks[p.pos], true
	}
	return Tok{}, false
}

func (p *tparser) isWord(w string) bool {
	t, ok := p.peek()
	return ok && t.Kind == TIdent && t.Val == w
}

func (p *tparser) isPunct(w string) bool {
	t, ok := p.peek()
	return ok && t.Kind == TPunct && t.Val == w
}

func (p *tparser) expectPunct(w string) error {
	if !p.isPunct(w) {
		return fmt.Errorf("expected %q at token %d", w, p.pos)
	}
	p.pos++
	return nil
}

// ParseTokens parses a token sequence with the documented grammar. It returns
// an error for anything that is not a sentence.
func ParseTokens(toks []Tok) (*Node, error) {
	p := &tparser{toks: toks}
	n, err := p.expr()
	if err != nil {
		return nil, err
	}
	if p.pos != len(toks) {
		return nil, fmt.Errorf("trailing tokens at %d", p.pos)
	}
	return n, nil
}

// Accepts says whether the token sequence is a sentence of the grammar.
func Accepts(toks []Tok) bool { _, err := ParseTokens(toks); return err == nil }

func (p *tparser) expr() (*Node, error) {
	first, err := p.term()
	if err != nil {
		return nil, err
	}
	if p.isWord("AND") || p.isWord("OR") {
		t, _ := p.peek()
		op := t.Val
		kids := []*Node{first}
		for p.isWord(op) {
			p.pos++
			k, err := p.term()
			if err != nil {
				return nil, err
			}
			kids = append(kids, k)
		}
		if op == "AND" {
			return And(kids...), nil
		}
		return Or(kids...), nil
	}
	return first, nil
}

func (p *tparser) term() (*Node, error) {
	neg := false
	dash := false
	if p.isWord("NOT") {
		neg = true
		p.pos++
	} else if p.isPunct("-") {
		neg, dash = true, true
		p.pos++
	}
	var n *Node
	var err error
	if p.isPunct("(") {
		p.pos++
		n, err = p.expr()
		if err != nil {
			return nil, err
		}
		if err = p.expectPunct(")"); err != nil {
			return nil, err
		}
		// keep a private copy so Paren marking does not alias
		c := *n
		c.Paren = true
		n = &c
	} else {
		n, err = p.basic()
		if err != nil {
			return nil, err
		}
	}
	if neg {
		nn := Not(n)
		nn.Dash = dash
		return nn, nil
	}
	return n, nil
}

func (p *tparser) name() (string, bool, error) {
	t, ok := p.peek()
	if !ok {
		return "", false, fmt.Errorf("expected attribute name at end")
	}
	switch t.Kind {
	case TIdent:
		p.pos++
		return t.Val, false, nil
	case TString:
		p.pos++
		return t.Val, true, nil
	}
	return "", false, fmt.Errorf("expected attribute name at token %d", p.pos)
}

func (p *tparser) str() (string, error) {
	t, ok := p.peek()
	if !ok || t.Kind != TString {
		return "", fmt.Errorf("expected string at token %d", p.pos)
	}
	p.pos++
	return t.Val, nil
}

func (p *tparser) basic() (*Node, error) {
	switch {
	case p.isWord("attributes"):
		p.pos++
		switch {
		case p.isPunct(":"):
			p.pos++
			n, q, err := p.name()
			if err != nil {
				return nil, err
			}
			return &Node{Kind: NHas, Name: n, QuoteNam: q}, nil
		case p.isPunct("."):
			p.pos++
			n, q, err := p.name()
			if err != nil {
				return nil, err
			}
			kind := NEq
			switch {
			case p.isPunct("="):
			case p.isPunct("!="):
				kind = NNe
			default:
				return nil, fmt.Errorf("expected = or != at token %d", p.pos)
			}
			p.pos++
			v, err := p.str()
			if err != nil {
				return nil, err
			}
			return &Node{Kind: kind, Name: n, Value: v, QuoteNam: q}, nil
		}
		return nil, fmt.Errorf("expected : or . at token %d", p.pos)
	case p.isWord("hasPrefix"):
		p.pos++
		if err := p.expectPunct("("); err != nil {
			return nil, err
		}
		if !p.isWord("attributes") {
			return nil, fmt.Errorf("expected attributes at token %d", p.pos)
		}
		p.pos++
		if err := p.expectPunct("."); err != nil {
			return nil, err
		}
		n, q, err := p.name()
		if err != nil {
			return nil, err
		}
		if err := p.expectPunct(","); err != nil {
			return nil, err
		}
		v, err := p.str()
		if err != nil {
			return nil, err
		}
		if err := p.expectPunct(")"); err != nil {
			return nil, err
		}
		return &Node{Kind: NPrefix, Name: n, Value: v, QuoteNam: q}, nil
	}
	return nil, fmt.Errorf("expected basic expression at token %d", p.pos)
}

// KeywordLike says whether a bare identifier collides with a word of the
// grammar; bare keyword-named attributes are outside the compared domain.
func KeywordLike(s string) bool {
	switch s {
	case "AND", "OR", "NOT", "attributes", "hasPrefix":
		return true
	}
	return false
}
