package ref

import (
	"math"
	"time"
)

const (
	DefaultMinBackoff = 10 * time.Second
	DefaultMaxBackoff = 10 * time.Minute
)

// Backoff is the documented retry deadline after the n-th delivery:
// min(maxBackoff, minBackoff * 1.1^n), with the documented defaults when a
// bound is absent (<= 0).
func Backoff(minB, maxB time.Duration, n int) time.Duration {
	if minB <= 0 {
		minB = DefaultMinBackoff
	}
	if maxB <= 0 {
		maxB = DefaultMaxBackoff
	}
	d := minB.Seconds() * math.Exp(float64(n)*math.Log(1.1))
	if d > maxB.Seconds() {
		return maxB
	}
	return time.Duration(d * 1e9)
}

// JitterBound is the documented upper bound of the jitter added to a backoff.
const JitterBound = time.Second
