// Package seam is a database/sql driver that wraps mattn/go-sqlite3 (the driver
// mmmbbb itself uses for SQLite) and is opened through mmmbbb's own db.Open. It
// gives the monitors, without any change to mmmbbb:
//
//   - a statement trace (BEGIN / exec / query / COMMIT / ROLLBACK) per logical actor,
//   - failure of the k-th statement event of an actor (driver error), or cancellation
//     of the actor's context at the k-th event,
//   - virtual delays at transaction boundaries (before BEGIN, after COMMIT) per actor,
//   - an optional 1 us (virtual) clock tick per statement, so that timestamps taken
//     in successive statements differ as they do with a real clock.
//
// The actor is carried in the context (WithActor). Tx.Commit/Rollback have no
// context and use the actor of the BeginTx that created them.
package seam

import (
	"github.com/jackc/pgx/v5/pgconn"
	"context"
	"database/sql"
	"database/sql/driver"
	"errors"
	"fmt"
	"strings"
	"sync"
	"sync/atomic"
	"time"

	sqlite3 "github.com/mattn/go-sqlite3"
)

const DriverName = "verif-sqlite3"

func init() {
	sql.Register(DriverName, &Driver{inner: &sqlite3.SQLiteDriver{}})
}

type actorKey struct{}

// WithActor tags ctx (and everything derived from it) with a logical actor name.
func WithActor(ctx context.Context, actor string) context.Context {
	return context.WithValue(ctx, actorKey{}, actor)
}

func ActorOf(ctx context.Context) string {
	if ctx == nil {
		return ""
	}
	if a, ok := ctx.Value(actorKey{}).(string); ok {
		return a
	}
	return ""
}

// ErrInjected is the error returned for an injected statement failure.
var ErrInjected = errors.New("seam: injected storage failure")

type Kind string

const (
	KBegin    Kind = "BEGIN"
	KExec     Kind = "exec"
	KQuery    Kind = "query"
	KCommit   Kind = "COMMIT"
	KRollback Kind = "ROLLBACK"
)

type Event struct {
	Seq   int    `json:"seq"`
	Actor string `json:"actor,omitempty"`
	Kind  Kind   `json:"kind"`
	SQL   string `json:"sql,omitempty"`
	Err   string `json:"err,omitempty"`
	At    int64  `json:"at_ns"` // virtual clock, unix nanos
}

type FaultMode int

const (
	FaultNone FaultMode = iota
	FaultError
	FaultCancel
	// FaultDeadlock: the statement fails the way PostgreSQL reports a deadlock
	// (SQLSTATE 40P01) - the one storage error the code under test retries on
	FaultDeadlock
)

// Fault describes one injected fault: the K-th (1-based) countable event
// (BEGIN, exec, query, COMMIT) issued by Actor ("" = any actor).
type Fault struct {
	Actor  string
	K      int
	Mode   FaultMode
	Cancel context.CancelFunc // for FaultCancel
	// Kind, if set, counts only events of that kind (e.g. the K-th COMMIT of Actor)
	Kind Kind
}

// Control is the process-global seam state. Cases run one at a time per
// process, so a single instance is enough; all access is mutex-protected.
type Control struct {
	mu        sync.Mutex
	seq       int
	trace     []Event
	traceOn   bool
	traceCap  int
	counts    map[string]int // countable events per actor since last ResetCounts
	total     int
	fault     *Fault
	faultHits int
	tick      time.Duration
	// boundary delays: called outside any transaction
	beforeBegin func(actor string) time.Duration
	afterCommit func(actor string) time.Duration
	// afterAutoQuery: delay after a query that ran outside any transaction has
	// been read to the end (its result is a snapshot the caller goes on to use)
	afterAutoQuery func(actor string) time.Duration
	// boundary observers
	onBoundary func(actor string, kind Kind)
	// number of goroutines currently inside a statement-tick sleep
	sleeping atomic.Int64
}

// Ticking reports how many goroutines are inside a statement-tick sleep: such a
// goroutine is "durably blocked" for synctest.Wait although it is about to run.
func (c *Control) Ticking() int64 { return c.sleeping.Load() }

var C = &Control{counts: map[string]int{}, traceCap: 4000}

// Reset clears everything (call at the start of each case).
func (c *Control) Reset() {
	c.mu.Lock()
	defer c.mu.Unlock()
	c.seq = 0
	c.trace = nil
	c.traceOn = false
	c.counts = map[string]int{}
	c.total = 0
	c.fault = nil
	c.faultHits = 0
	c.tick = 0
	c.beforeBegin = nil
	c.afterCommit = nil
	c.afterAutoQuery = nil
	c.onBoundary = nil
}

func (c *Control) SetTrace(on bool) { c.mu.Lock(); c.traceOn = on; c.mu.Unlock() }
func (c *Control) SetTick(d time.Duration) {
	c.mu.Lock()
	c.tick = d
	c.mu.Unlock()
}

func (c *Control) Tick() time.Duration { c.mu.Lock(); defer c.mu.Unlock(); return c.tick }

func (c *Control) SetBoundaryDelays(beforeBegin, afterCommit func(actor string) time.Duration) {
	c.mu.Lock()
	c.beforeBegin, c.afterCommit = beforeBegin, afterCommit
	c.mu.Unlock()
}

// SetAutoQueryDelay sets the delay slept after a query outside any transaction
// has been fully read and closed (nil: none).
func (c *Control) SetAutoQueryDelay(f func(actor string) time.Duration) {
	c.mu.Lock()
	c.afterAutoQuery = f
	c.mu.Unlock()
}

func (c *Control) SetBoundaryObserver(f func(actor string, kind Kind)) {
	c.mu.Lock()
	c.onBoundary = f
	c.mu.Unlock()
}

// ResetCounts zeroes the per-actor countable-event counters.
func (c *Control) ResetCounts() {
	c.mu.Lock()
	c.counts = map[string]int{}
	c.total = 0
	c.mu.Unlock()
}

// Count returns the number of countable events issued by actor ("" = all).
func (c *Control) Count(actor string) int {
	c.mu.Lock()
	defer c.mu.Unlock()
	if actor == "" {
		return c.total
	}
	return c.counts[actor]
}

// SetFault arms (or with nil disarms) a fault. Counting is relative to the last
// ResetCounts.
func (c *Control) SetFault(f *Fault) {
	c.mu.Lock()
	c.fault = f
	c.faultHits = 0
	c.mu.Unlock()
}

func (c *Control) FaultHits() int { c.mu.Lock(); defer c.mu.Unlock(); return c.faultHits }

func (c *Control) Trace() []Event {
	c.mu.Lock()
	defer c.mu.Unlock()
	out := make([]Event, len(c.trace))
	copy(out, c.trace)
	return out
}

func (c *Control) TraceTail(n int) []Event {
	t := c.Trace()
	if len(t) > n {
		t = t[len(t)-n:]
	}
	return t
}

func short(q string) string {
	q = strings.Join(strings.Fields(q), " ")
	if len(q) > 160 {
		q = q[:160] + "..."
	}
	return q
}

// step is called for every countable event before it is executed. It returns a
// non-nil error if the event must fail.
func (c *Control) step(ctx context.Context, actor string, kind Kind, q string) error {
	c.mu.Lock()
	c.seq++
	c.total++
	c.counts[actor]++
	c.counts[actor+"\x00"+string(kind)]++
	var inject error
	var cancel context.CancelFunc
	if f := c.fault; f != nil && f.Mode != FaultNone {
		n := c.total
		if f.Actor != "" {
			if actor == f.Actor {
				n = c.counts[actor]
			} else {
				n = -1
			}
		}
		if f.Kind != "" {
			n = -1
			if kind == f.Kind && (f.Actor == "" || actor == f.Actor) {
				n = c.counts[actor+"\x00"+string(kind)]
			}
		}
		if n == f.K {
			c.faultHits++
			switch f.Mode {
			case FaultError:
				inject = ErrInjected
			case FaultDeadlock:
				inject = &pgconn.PgError{Severity: "ERROR", Code: "40P01", Message: "deadlock detected (injected)"}
			case FaultCancel:
				cancel = f.Cancel
			}
		}
	}
	if c.traceOn && len(c.trace) < c.traceCap {
		ev := Event{Seq: c.seq, Actor: actor, Kind: kind, SQL: short(q), At: time.Now().UnixNano()}
		if inject != nil {
			ev.Err = "INJECTED"
		} else if cancel != nil {
			ev.Err = "CANCEL"
		}
		c.trace = append(c.trace, ev)
	}
	tick := c.tick
	c.mu.Unlock()
	if cancel != nil {
		cancel()
	}
	if tick > 0 && (ctx == nil || ctx.Err() == nil) {
		c.sleeping.Add(1)
		time.Sleep(tick)
		c.sleeping.Add(-1)
	}
	return inject
}

func (c *Control) note(actor string, kind Kind, err error) {
	c.mu.Lock()
	if c.traceOn && len(c.trace) < c.traceCap {
		c.seq++
		ev := Event{Seq: c.seq, Actor: actor, Kind: kind, At: time.Now().UnixNano()}
		if err != nil {
			ev.Err = err.Error()
		}
		c.trace = append(c.trace, ev)
	}
	c.mu.Unlock()
}

type Driver struct {
	inner *sqlite3.SQLiteDriver
}

func (d *Driver) Open(dsn string) (driver.Conn, error) {
	cn, err := d.inner.Open(dsn)
	if err != nil {
		return nil, err
	}
	return &conn{inner: cn.(*sqlite3.SQLiteConn)}, nil
}

type conn struct {
	inner *sqlite3.SQLiteConn
	inTx  atomic.Bool
}

// rowsw delays the caller after an autocommit query's rows were closed.
type rowsw struct {
	driver.Rows
	after func()
	once  sync.Once
}

func (r *rowsw) Close() error {
	err := r.Rows.Close()
	r.once.Do(r.after)
	return err
}

var (
	_ driver.Conn               = (*conn)(nil)
	_ driver.ConnBeginTx        = (*conn)(nil)
	_ driver.ExecerContext      = (*conn)(nil)
	_ driver.QueryerContext     = (*conn)(nil)
	_ driver.ConnPrepareContext = (*conn)(nil)
	_ driver.Pinger             = (*conn)(nil)
)

func (c *conn) Prepare(query string) (driver.Stmt, error) { return c.inner.Prepare(query) }
func (c *conn) PrepareContext(ctx context.Context, query string) (driver.Stmt, error) {
	return c.inner.PrepareContext(ctx, query)
}
func (c *conn) Close() error                   { return c.inner.Close() }
func (c *conn) Ping(ctx context.Context) error { return c.inner.Ping(ctx) }
func (c *conn) Begin() (driver.Tx, error) {
	return c.BeginTx(context.Background(), driver.TxOptions{})
}

func (c *conn) BeginTx(ctx context.Context, opts driver.TxOptions) (driver.Tx, error) {
	actor := ActorOf(ctx)
	C.mu.Lock()
	bb, ob := C.beforeBegin, C.onBoundary
	C.mu.Unlock()
	if bb != nil {
		if d := bb(actor); d > 0 {
			time.Sleep(d)
		}
	}
	if ob != nil {
		ob(actor, KBegin)
	}
	if err := C.step(ctx, actor, KBegin, ""); err != nil {
		return nil, err
	}
	// mattn rejects non-default isolation levels other than the ones it knows;
	// pass through unchanged
	tx, err := c.inner.BeginTx(ctx, opts)
	if err != nil {
		return nil, err
	}
	c.inTx.Store(true)
	return &txw{inner: tx, actor: actor, ctx: ctx, c: c}, nil
}

func (c *conn) ExecContext(ctx context.Context, query string, args []driver.NamedValue) (driver.Result, error) {
	if err := C.step(ctx, ActorOf(ctx), KExec, query); err != nil {
		return nil, err
	}
	return c.inner.ExecContext(ctx, query, args)
}

func (c *conn) QueryContext(ctx context.Context, query string, args []driver.NamedValue) (driver.Rows, error) {
	actor := ActorOf(ctx)
	if err := C.step(ctx, actor, KQuery, query); err != nil {
		return nil, err
	}
	rows, err := c.inner.QueryContext(ctx, query, args)
	if err != nil || c.inTx.Load() {
		return rows, err
	}
	C.mu.Lock()
	aq := C.afterAutoQuery
	C.mu.Unlock()
	if aq == nil {
		return rows, err
	}
	return &rowsw{Rows: rows, after: func() {
		if d := aq(actor); d > 0 {
			time.Sleep(d)
		}
	}}, nil
}

type txw struct {
	inner driver.Tx
	actor string
	ctx   context.Context
	c     *conn
}

func (t *txw) Commit() error {
	if err := C.step(t.ctx, t.actor, KCommit, ""); err != nil {
		// a failing commit leaves nothing behind
		t.c.inTx.Store(false)
		if rbErr := t.inner.Rollback(); rbErr != nil {
			return fmt.Errorf("%w (and rollback failed: %v)", err, rbErr)
		}
		return err
	}
	err := t.inner.Commit()
	t.c.inTx.Store(false)
	C.mu.Lock()
	ac, ob := C.afterCommit, C.onBoundary
	C.mu.Unlock()
	if err == nil {
		if ob != nil {
			ob(t.actor, KCommit)
		}
		if ac != nil {
			if d := ac(t.actor); d > 0 {
				time.Sleep(d)
			}
		}
	}
	return err
}

func (t *txw) Rollback() error {
	err := t.inner.Rollback()
	t.c.inTx.Store(false)
	C.note(t.actor, KRollback, err)
	return err
}
