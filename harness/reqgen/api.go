package reqgen

import (
	"context"
	"fmt"

	"google.golang.org/protobuf/proto"

	"go.6river.tech/mmmbbb/grpc/pubsubpb"
)

// ServerAPI calls the in-process handler objects.
type ServerAPI struct {
	Pub pubsubpb.PublisherServer
	Sub pubsubpb.SubscriberServer
}

func (a ServerAPI) Call(ctx context.Context, rpc string, m proto.Message) (proto.Message, error) {
	switch rpc {
	case "CreateTopic":
		return a.Pub.CreateTopic(ctx, m.(*pubsubpb.Topic))
	case "UpdateTopic":
		return a.Pub.UpdateTopic(ctx, m.(*pubsubpb.UpdateTopicRequest))
	case "Publish":
		return a.Pub.Publish(ctx, m.(*pubsubpb.PublishRequest))
	case "GetTopic":
		return a.Pub.GetTopic(ctx, m.(*pubsubpb.GetTopicRequest))
	case "ListTopics":
		return a.Pub.ListTopics(ctx, m.(*pubsubpb.ListTopicsRequest))
	case "ListTopicSubscriptions":
		return a.Pub.ListTopicSubscriptions(ctx, m.(*pubsubpb.ListTopicSubscriptionsRequest))
	case "ListTopicSnapshots":
		return a.Pub.ListTopicSnapshots(ctx, m.(*pubsubpb.ListTopicSnapshotsRequest))
	case "DeleteTopic":
		return a.Pub.DeleteTopic(ctx, m.(*pubsubpb.DeleteTopicRequest))
	case "DetachSubscription":
		return a.Pub.DetachSubscription(ctx, m.(*pubsubpb.DetachSubscriptionRequest))
	case "CreateSubscription":
		return a.Sub.CreateSubscription(ctx, m.(*pubsubpb.Subscription))
	case "GetSubscription":
		return a.Sub.GetSubscription(ctx, m.(*pubsubpb.GetSubscriptionRequest))
	case "UpdateSubscription":
		return a.Sub.UpdateSubscription(ctx, m.(*pubsubpb.UpdateSubscriptionRequest))
	case "ListSubscriptions":
		return a.Sub.ListSubscriptions(ctx, m.(*pubsubpb.ListSubscriptionsRequest))
	case "DeleteSubscription":
		return a.Sub.DeleteSubscription(ctx, m.(*pubsubpb.DeleteSubscriptionRequest))
	case "ModifyAckDeadline":
		return a.Sub.ModifyAckDeadline(ctx, m.(*pubsubpb.ModifyAckDeadlineRequest))
	case "Acknowledge":
		return a.Sub.Acknowledge(ctx, m.(*pubsubpb.AcknowledgeRequest))
	case "Pull":
		return a.Sub.Pull(ctx, m.(*pubsubpb.PullRequest))
	case "ModifyPushConfig":
		return a.Sub.ModifyPushConfig(ctx, m.(*pubsubpb.ModifyPushConfigRequest))
	case "GetSnapshot":
		return a.Sub.GetSnapshot(ctx, m.(*pubsubpb.GetSnapshotRequest))
	case "ListSnapshots":
		return a.Sub.ListSnapshots(ctx, m.(*pubsubpb.ListSnapshotsRequest))
	case "CreateSnapshot":
		return a.Sub.CreateSnapshot(ctx, m.(*pubsubpb.CreateSnapshotRequest))
	case "UpdateSnapshot":
		return a.Sub.UpdateSnapshot(ctx, m.(*pubsubpb.UpdateSnapshotRequest))
	case "DeleteSnapshot":
		return a.Sub.DeleteSnapshot(ctx, m.(*pubsubpb.DeleteSnapshotRequest))
	case "Seek":
		return a.Sub.Seek(ctx, m.(*pubsubpb.SeekRequest))
	}
	return nil, fmt.Errorf("reqgen: unknown rpc %s", rpc)
}

// ClientAPI calls a real server over gRPC.
type ClientAPI struct {
	Pub pubsubpb.PublisherClient
	Sub pubsubpb.SubscriberClient
}

func (a ClientAPI) Call(ctx context.Context, rpc string, m proto.Message) (proto.Message, error) {
	switch rpc {
	case "CreateTopic":
		return a.Pub.CreateTopic(ctx, m.(*pubsubpb.Topic))
	case "UpdateTopic":
		return a.Pub.UpdateTopic(ctx, m.(*pubsubpb.UpdateTopicRequest))
	case "Publish":
		return a.Pub.Publish(ctx, m.(*pubsubpb.PublishRequest))
	case "GetTopic":
		return a.Pub.GetTopic(ctx, m.(*pubsubpb.GetTopicRequest))
	case "ListTopics":
		return a.Pub.ListTopics(ctx, m.(*pubsubpb.ListTopicsRequest))
	case "ListTopicSubscriptions":
		return a.Pub.ListTopicSubscriptions(ctx, m.(*pubsubpb.ListTopicSubscriptionsRequest))
	case "ListTopicSnapshots":
		return a.Pub.ListTopicSnapshots(ctx, m.(*pubsubpb.ListTopicSnapshotsRequest))
	case "DeleteTopic":
		return a.Pub.DeleteTopic(ctx, m.(*pubsubpb.DeleteTopicRequest))
	case "DetachSubscription":
		return a.Pub.DetachSubscription(ctx, m.(*pubsubpb.DetachSubscriptionRequest))
	case "CreateSubscription":
		return a.Sub.CreateSubscription(ctx, m.(*pubsubpb.Subscription))
	case "GetSubscription":
		return a.Sub.GetSubscription(ctx, m.(*pubsubpb.GetSubscriptionRequest))
	case "UpdateSubscription":
		return a.Sub.UpdateSubscription(ctx, m.(*pubsubpb.UpdateSubscriptionRequest))
	case "ListSubscriptions":
		return a.Sub.ListSubscriptions(ctx, m.(*pubsubpb.ListSubscriptionsRequest))
	case "DeleteSubscription":
		return a.Sub.DeleteSubscription(ctx, m.(*pubsubpb.DeleteSubscriptionRequest))
	case "ModifyAckDeadline":
		return a.Sub.ModifyAckDeadline(ctx, m.(*pubsubpb.ModifyAckDeadlineRequest))
	case "Acknowledge":
		return a.Sub.Acknowledge(ctx, m.(*pubsubpb.AcknowledgeRequest))
	case "Pull":
		return a.Sub.Pull(ctx, m.(*pubsubpb.PullRequest))
	case "ModifyPushConfig":
		return a.Sub.ModifyPushConfig(ctx, m.(*pubsubpb.ModifyPushConfigRequest))
	case "GetSnapshot":
		return a.Sub.GetSnapshot(ctx, m.(*pubsubpb.GetSnapshotRequest))
	case "ListSnapshots":
		return a.Sub.ListSnapshots(ctx, m.(*pubsubpb.ListSnapshotsRequest))
	case "CreateSnapshot":
		return a.Sub.CreateSnapshot(ctx, m.(*pubsubpb.CreateSnapshotRequest))
	case "UpdateSnapshot":
		return a.Sub.UpdateSnapshot(ctx, m.(*pubsubpb.UpdateSnapshotRequest))
	case "DeleteSnapshot":
		return a.Sub.DeleteSnapshot(ctx, m.(*pubsubpb.DeleteSnapshotRequest))
	case "Seek":
		return a.Sub.Seek(ctx, m.(*pubsubpb.SeekRequest))
	}
	return nil, fmt.Errorf("reqgen: unknown rpc %s", rpc)
}

// Setup creates the resources the base requests refer to and returns the world.
func Setup(ctx context.Context, api API) (*World, error) {
	w := &World{Topic: "projects/p/topics/base", DLTopic: "projects/p/topics/dl", Sub: "projects/p/subscriptions/base", OrdSub: "projects/p/subscriptions/ord", Snap: "projects/p/snapshots/base"}
	steps := []struct {
		rpc string
		m   proto.Message
	}{
		{"CreateTopic", &pubsubpb.Topic{Name: w.Topic}},
		{"CreateTopic", &pubsubpb.Topic{Name: w.DLTopic}},
		{"CreateSubscription", &pubsubpb.Subscription{Name: w.Sub, Topic: w.Topic}},
		{"CreateSubscription", &pubsubpb.Subscription{Name: w.OrdSub, Topic: w.Topic, EnableMessageOrdering: true}},
		{"CreateSubscription", &pubsubpb.Subscription{Name: "projects/p/subscriptions/other", Topic: w.Topic}},
	}
	for _, s := range steps {
		if _, err := api.Call(ctx, s.rpc, s.m); err != nil {
			return nil, fmt.Errorf("setup %s: %w", s.rpc, err)
		}
	}
	if err := w.Refresh(ctx, api); err != nil {
		return nil, err
	}
	if _, err := api.Call(ctx, "CreateSnapshot", &pubsubpb.CreateSnapshotRequest{Name: w.Snap, Subscription: w.Sub}); err != nil {
		return nil, fmt.Errorf("setup snapshot: %w", err)
	}
	return w, nil
}

// Refresh publishes a few messages and pulls so that live / stale / foreign
// ack ids exist.
func (w *World) Refresh(ctx context.Context, api API) error {
	req := &pubsubpb.PublishRequest{Topic: w.Topic}
	for i := 0; i < 4; i++ {
		req.Messages = append(req.Messages, &pubsubpb.PubsubMessage{Data: []byte(fmt.Sprintf(`{"i":%d}`, i)), OrderingKey: "k"})
	}
	if _, err := api.Call(ctx, "Publish", req); err != nil {
		return fmt.Errorf("refresh publish: %w", err)
	}
	pull := func(sub string) ([]string, error) {
		r, err := api.Call(ctx, "Pull", &pubsubpb.PullRequest{Subscription: sub, MaxMessages: 100, ReturnImmediately: true})
		if err != nil {
			return nil, err
		}
		var ids []string
		for _, m := range r.(*pubsubpb.PullResponse).ReceivedMessages {
			ids = append(ids, m.AckId)
		}
		return ids, nil
	}
	ids, err := pull(w.Sub)
	if err != nil {
		return fmt.Errorf("refresh pull: %w", err)
	}
	if len(ids) >= 2 {
		if _, err := api.Call(ctx, "Acknowledge", &pubsubpb.AcknowledgeRequest{Subscription: w.Sub, AckIds: ids[:1]}); err != nil {
			return err
		}
		w.StaleAck = ids[:1]
		w.LiveAck = ids[1:]
	}
	f, err := pull("projects/p/subscriptions/other")
	if err != nil {
		return err
	}
	w.ForeignAck = f
	return nil
}
