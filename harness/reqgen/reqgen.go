// Package reqgen generates hostile requests for every Publisher / Subscriber
// RPC from per-field boundary domains: single-field deviations from a valid
// base request, plus seeded random combinations. The same requests are sent to
// the real binary (Rig P: does it survive and answer?) and to the in-process
// handlers (Rig V: does an error reply leave the tables unchanged?).
package reqgen

import (
	"context"
	"fmt"
	"math"
	"math/rand"
	"strings"
	"time"

	"google.golang.org/protobuf/proto"
	"google.golang.org/protobuf/types/known/durationpb"
	"google.golang.org/protobuf/types/known/fieldmaskpb"
	"google.golang.org/protobuf/types/known/timestamppb"

	"go.6river.tech/mmmbbb/grpc/pubsubpb"
)

// World names the resources the base requests refer to.
type World struct {
	Topic, DLTopic, Sub, OrdSub, Snap string
	LiveAck, StaleAck, ForeignAck     []string
	N                                 int // counter for fresh names
}

// Req is one generated unary request.
type Req struct {
	RPC   string
	Field string // which field deviates from the valid base ("" = the base itself)
	Class string // class of the deviating value
	Msg   proto.Message
	// Mutates says the base form of this RPC changes state (used to refresh the world)
	Mutates bool
}

func (r Req) Sig() string { return r.RPC + "/" + r.Field + "/" + r.Class }

// API is the common call surface of the gRPC clients and the in-process servers.
type API interface {
	Call(ctx context.Context, rpc string, msg proto.Message) (proto.Message, error)
}

type val struct {
	class string
	v     any
}

func names(kind string, w *World) []val {
	live := map[string]string{"topics": w.Topic, "subscriptions": w.Sub, "snapshots": w.Snap}[kind]
	other := map[string]string{"topics": w.Sub, "subscriptions": w.Topic, "snapshots": w.Sub}[kind]
	return []val{
		{"live", live},
		{"unknown", "projects/p/" + kind + "/nosuch"},
		{"wrong-kind", other},
		{"empty", ""},
		{"five-segments", "projects/p/" + kind + "/a/b"},
		{"empty-project", "projects//" + kind + "/x"},
		{"empty-id", "projects/p/" + kind + "/"},
		{"garbage", "\x00/../%s"},
		{"very-long", "projects/p/" + kind + "/" + strings.Repeat("x", 5000)},
	}
}

var int32s = []val{{"min", int32(math.MinInt32)}, {"minus-one", int32(-1)}, {"zero", int32(0)}, {"one", int32(1)}, {"max", int32(math.MaxInt32)}}

func durations() []val {
	return []val{
		{"nil", (*durationpb.Duration)(nil)},
		{"negative", durationpb.New(-time.Second)},
		{"negative-huge", &durationpb.Duration{Seconds: math.MinInt64 / 2}},
		{"zero", durationpb.New(0)},
		{"one-ns", durationpb.New(1)},
		{"ten-thousand-years", &durationpb.Duration{Seconds: 315576000000}},
		{"invalid-nanos", &durationpb.Duration{Seconds: 1, Nanos: -5}},
		{"max", &durationpb.Duration{Seconds: math.MaxInt64, Nanos: 999999999}},
	}
}

func ackLists(w *World) []val {
	return []val{
		{"live", w.LiveAck},
		{"stale", w.StaleAck},
		{"foreign", w.ForeignAck},
		{"garbage", []string{"not-a-uuid"}},
		{"empty-string", []string{""}},
		{"empty-list", []string{}},
		{"nil", []string(nil)},
		{"mixed-garbage", append(append([]string{}, w.LiveAck...), "zzz")},
		{"unknown-wellformed", []string{"00000000-0000-4000-8000-000000000001"}},
		{"duplicate", append(append([]string{}, w.LiveAck...), w.LiveAck...)},
		{"repeated-stale", append(append(append([]string{}, w.StaleAck...), w.StaleAck...), w.StaleAck...)},
		{"repeated-unknown", []string{"00000000-0000-4000-8000-000000000001", "00000000-0000-4000-8000-000000000002", "00000000-0000-4000-8000-000000000001", "00000000-0000-4000-8000-000000000002"}},
		{"same-unknown-three-times", []string{"00000000-0000-4000-8000-000000000001", "00000000-0000-4000-8000-000000000001", "00000000-0000-4000-8000-000000000001"}},
	}
}

func (w *World) fresh(kind string) string {
	w.N++
	return fmt.Sprintf("projects/p/%s/gen%d", kind, w.N)
}

// Unary returns the deterministic single-field-deviation requests.
func Unary(w *World) []Req {
	var out []Req
	add := func(rpc, field, class string, m proto.Message) {
		out = append(out, Req{RPC: rpc, Field: field, Class: class, Msg: m})
	}
	// ---- Publisher
	for _, n := range names("topics", w) {
		nm := n.v.(string)
		if n.class == "live" {
			nm = w.fresh("topics")
		}
		add("CreateTopic", "name", n.class, &pubsubpb.Topic{Name: nm})
		add("GetTopic", "topic", n.class, &pubsubpb.GetTopicRequest{Topic: n.v.(string)})
		add("Publish", "topic", n.class, &pubsubpb.PublishRequest{Topic: n.v.(string), Messages: []*pubsubpb.PubsubMessage{{Data: []byte(`{"a":1}`)}}})
		add("ListTopicSubscriptions", "topic", n.class, &pubsubpb.ListTopicSubscriptionsRequest{Topic: n.v.(string)})
		add("UpdateTopic", "topic.name", n.class, &pubsubpb.UpdateTopicRequest{Topic: &pubsubpb.Topic{Name: n.v.(string), Labels: map[string]string{"a": "b"}}, UpdateMask: &fieldmaskpb.FieldMask{Paths: []string{"labels"}}})
		add("DetachSubscription", "subscription", n.class, &pubsubpb.DetachSubscriptionRequest{Subscription: n.v.(string)})
		add("ListTopicSnapshots", "topic", n.class, &pubsubpb.ListTopicSnapshotsRequest{Topic: n.v.(string)})
	}
	add("CreateTopic", "kms_key_name", "set", &pubsubpb.Topic{Name: w.fresh("topics"), KmsKeyName: "k"})
	add("CreateTopic", "message_storage_policy", "set", &pubsubpb.Topic{Name: w.fresh("topics"), MessageStoragePolicy: &pubsubpb.MessageStoragePolicy{}})
	add("CreateTopic", "labels", "weird", &pubsubpb.Topic{Name: w.fresh("topics"), Labels: map[string]string{"": "", "\x00": "\u00ff"}})
	add("UpdateTopic", "topic", "nil", &pubsubpb.UpdateTopicRequest{UpdateMask: &fieldmaskpb.FieldMask{Paths: []string{"labels"}}})
	for _, mk := range []val{{"nil", (*fieldmaskpb.FieldMask)(nil)}, {"empty", &fieldmaskpb.FieldMask{}}, {"unknown-path", &fieldmaskpb.FieldMask{Paths: []string{"nope"}}},
		{"name", &fieldmaskpb.FieldMask{Paths: []string{"name"}}}, {"repeated", &fieldmaskpb.FieldMask{Paths: []string{"labels", "labels"}}}, {"unsupported", &fieldmaskpb.FieldMask{Paths: []string{"kms_key_name"}}}} {
		add("UpdateTopic", "update_mask", mk.class, &pubsubpb.UpdateTopicRequest{Topic: &pubsubpb.Topic{Name: w.Topic, Labels: map[string]string{"x": "y"}}, UpdateMask: mk.v.(*fieldmaskpb.FieldMask)})
	}
	for _, pm := range []val{
		{"no-messages", []*pubsubpb.PubsubMessage{}}, {"nil-message", []*pubsubpb.PubsubMessage{nil}},
		{"non-json", []*pubsubpb.PubsubMessage{{Data: []byte(`{not json`)}}}, {"empty-data", []*pubsubpb.PubsubMessage{{Data: nil}}},
		{"large-json", []*pubsubpb.PubsubMessage{{Data: []byte(`"` + strings.Repeat("x", 1<<20) + `"`)}}},
		{"weird-attrs", []*pubsubpb.PubsubMessage{{Data: []byte(`1`), Attributes: map[string]string{"": "", "\x00": "\u00ff"}}}},
		{"long-key", []*pubsubpb.PubsubMessage{{Data: []byte(`1`), OrderingKey: strings.Repeat("k", 100000)}}},
		{"client-supplied-id-and-time", []*pubsubpb.PubsubMessage{{Data: []byte(`1`), MessageId: "mine", PublishTime: timestamppb.New(time.Unix(0, 0))}}},
		{"mixed-valid-invalid", []*pubsubpb.PubsubMessage{{Data: []byte(`1`)}, {Data: []byte(`{`)}}},
	} {
		add("Publish", "messages", pm.class, &pubsubpb.PublishRequest{Topic: w.Topic, Messages: pm.v.([]*pubsubpb.PubsubMessage)})
	}
	for _, ps := range int32s {
		add("ListTopics", "page_size", ps.class, &pubsubpb.ListTopicsRequest{Project: "projects/p", PageSize: ps.v.(int32)})
		add("ListSubscriptions", "page_size", ps.class, &pubsubpb.ListSubscriptionsRequest{Project: "projects/p", PageSize: ps.v.(int32)})
		add("ListSnapshots", "page_size", ps.class, &pubsubpb.ListSnapshotsRequest{Project: "projects/p", PageSize: ps.v.(int32)})
		add("ListTopicSubscriptions", "page_size", ps.class, &pubsubpb.ListTopicSubscriptionsRequest{Topic: w.Topic, PageSize: ps.v.(int32)})
		// the same on a project without any resource (empty pages)
		add("ListTopics", "page_size-empty-project", ps.class, &pubsubpb.ListTopicsRequest{Project: "projects/none", PageSize: ps.v.(int32)})
		add("ListSubscriptions", "page_size-empty-project", ps.class, &pubsubpb.ListSubscriptionsRequest{Project: "projects/none", PageSize: ps.v.(int32)})
		add("ListSnapshots", "page_size-empty-project", ps.class, &pubsubpb.ListSnapshotsRequest{Project: "projects/none", PageSize: ps.v.(int32)})
	}
	for _, tk := range []val{{"garbage", "zzz"}, {"wellformed-unknown", "00000000-0000-4000-8000-000000000001"}, {"max-uuid", "ffffffff-ffff-ffff-ffff-ffffffffffff"}} {
		add("ListTopics", "page_token", tk.class, &pubsubpb.ListTopicsRequest{Project: "projects/p", PageToken: tk.v.(string)})
		add("ListSubscriptions", "page_token", tk.class, &pubsubpb.ListSubscriptionsRequest{Project: "projects/p", PageToken: tk.v.(string)})
		add("ListSnapshots", "page_token", tk.class, &pubsubpb.ListSnapshotsRequest{Project: "projects/p", PageToken: tk.v.(string)})
		add("ListTopicSubscriptions", "page_token", tk.class, &pubsubpb.ListTopicSubscriptionsRequest{Topic: w.Topic, PageToken: tk.v.(string)})
	}
	for _, pj := range []val{{"empty", ""}, {"garbage", "%_\x00"}, {"no-prefix", "p"}} {
		add("ListTopics", "project", pj.class, &pubsubpb.ListTopicsRequest{Project: pj.v.(string)})
		add("ListSubscriptions", "project", pj.class, &pubsubpb.ListSubscriptionsRequest{Project: pj.v.(string)})
		add("ListSnapshots", "project", pj.class, &pubsubpb.ListSnapshotsRequest{Project: pj.v.(string)})
	}

	// ---- Subscriber: names on every RPC
	for _, n := range names("subscriptions", w) {
		s := n.v.(string)
		cs := s
		if n.class == "live" {
			cs = w.fresh("subscriptions")
		}
		add("CreateSubscription", "name", n.class, &pubsubpb.Subscription{Name: cs, Topic: w.Topic})
		add("GetSubscription", "subscription", n.class, &pubsubpb.GetSubscriptionRequest{Subscription: s})
		add("UpdateSubscription", "subscription.name", n.class, &pubsubpb.UpdateSubscriptionRequest{Subscription: &pubsubpb.Subscription{Name: s, Labels: map[string]string{"a": "b"}}, UpdateMask: &fieldmaskpb.FieldMask{Paths: []string{"labels"}}})
		add("Pull", "subscription", n.class, &pubsubpb.PullRequest{Subscription: s, MaxMessages: 1, ReturnImmediately: true})
		add("Acknowledge", "subscription", n.class, &pubsubpb.AcknowledgeRequest{Subscription: s, AckIds: w.StaleAck})
		add("ModifyAckDeadline", "subscription", n.class, &pubsubpb.ModifyAckDeadlineRequest{Subscription: s, AckIds: w.StaleAck, AckDeadlineSeconds: 10})
		add("ModifyPushConfig", "subscription", n.class, &pubsubpb.ModifyPushConfigRequest{Subscription: s, PushConfig: &pubsubpb.PushConfig{}})
		add("Seek", "subscription", n.class, &pubsubpb.SeekRequest{Subscription: s, Target: &pubsubpb.SeekRequest_Time{Time: timestamppb.New(time.Date(2000, 1, 1, 0, 0, 1, 0, time.UTC))}})
		add("CreateSnapshot", "subscription", n.class, &pubsubpb.CreateSnapshotRequest{Name: w.fresh("snapshots"), Subscription: s})
	}
	for _, n := range names("topics", w) {
		add("CreateSubscription", "topic", n.class, &pubsubpb.Subscription{Name: w.fresh("subscriptions"), Topic: n.v.(string)})
		add("CreateSubscription", "dead_letter_policy.dead_letter_topic", n.class, &pubsubpb.Subscription{Name: w.fresh("subscriptions"), Topic: w.Topic, DeadLetterPolicy: &pubsubpb.DeadLetterPolicy{DeadLetterTopic: n.v.(string), MaxDeliveryAttempts: 5}})
		add("UpdateSubscription", "dead_letter_policy.dead_letter_topic", n.class, &pubsubpb.UpdateSubscriptionRequest{Subscription: &pubsubpb.Subscription{Name: w.OrdSub, DeadLetterPolicy: &pubsubpb.DeadLetterPolicy{DeadLetterTopic: n.v.(string), MaxDeliveryAttempts: 5}}, UpdateMask: &fieldmaskpb.FieldMask{Paths: []string{"dead_letter_policy"}}})
	}
	for _, n := range names("snapshots", w) {
		s := n.v.(string)
		cs := s
		if n.class == "live" {
			cs = w.fresh("snapshots")
		}
		add("CreateSnapshot", "name", n.class, &pubsubpb.CreateSnapshotRequest{Name: cs, Subscription: w.Sub})
		add("GetSnapshot", "snapshot", n.class, &pubsubpb.GetSnapshotRequest{Snapshot: s})
		add("Seek", "snapshot", n.class, &pubsubpb.SeekRequest{Subscription: w.OrdSub, Target: &pubsubpb.SeekRequest_Snapshot{Snapshot: s}})
		add("UpdateSnapshot", "snapshot.name", n.class, &pubsubpb.UpdateSnapshotRequest{Snapshot: &pubsubpb.Snapshot{Name: s}})
		if n.class != "live" {
			add("DeleteSnapshot", "snapshot", n.class, &pubsubpb.DeleteSnapshotRequest{Snapshot: s})
		}
	}
	// durations
	for _, d := range durations() {
		dd := d.v.(*durationpb.Duration)
		add("CreateSubscription", "expiration_policy.ttl", d.class, &pubsubpb.Subscription{Name: w.fresh("subscriptions"), Topic: w.Topic, ExpirationPolicy: &pubsubpb.ExpirationPolicy{Ttl: dd}})
		add("CreateSubscription", "message_retention_duration", d.class, &pubsubpb.Subscription{Name: w.fresh("subscriptions"), Topic: w.Topic, MessageRetentionDuration: dd})
		add("CreateSubscription", "retry_policy.minimum_backoff", d.class, &pubsubpb.Subscription{Name: w.fresh("subscriptions"), Topic: w.Topic, RetryPolicy: &pubsubpb.RetryPolicy{MinimumBackoff: dd}})
		add("CreateSubscription", "retry_policy.maximum_backoff", d.class, &pubsubpb.Subscription{Name: w.fresh("subscriptions"), Topic: w.Topic, RetryPolicy: &pubsubpb.RetryPolicy{MaximumBackoff: dd}})
		add("UpdateSubscription", "expiration_policy.ttl", d.class, &pubsubpb.UpdateSubscriptionRequest{Subscription: &pubsubpb.Subscription{Name: w.OrdSub, ExpirationPolicy: &pubsubpb.ExpirationPolicy{Ttl: dd}}, UpdateMask: &fieldmaskpb.FieldMask{Paths: []string{"expiration_policy"}}})
		add("UpdateSubscription", "message_retention_duration", d.class, &pubsubpb.UpdateSubscriptionRequest{Subscription: &pubsubpb.Subscription{Name: w.OrdSub, MessageRetentionDuration: dd}, UpdateMask: &fieldmaskpb.FieldMask{Paths: []string{"message_retention_duration"}}})
		add("UpdateSubscription", "retry_policy.minimum_backoff", d.class, &pubsubpb.UpdateSubscriptionRequest{Subscription: &pubsubpb.Subscription{Name: w.OrdSub, RetryPolicy: &pubsubpb.RetryPolicy{MinimumBackoff: dd, MaximumBackoff: dd}}, UpdateMask: &fieldmaskpb.FieldMask{Paths: []string{"retry_policy"}}})
	}
	// integers
	for _, i := range int32s {
		iv := i.v.(int32)
		add("Pull", "max_messages", i.class, &pubsubpb.PullRequest{Subscription: w.OrdSub, MaxMessages: iv, ReturnImmediately: true})
		add("ModifyAckDeadline", "ack_deadline_seconds", i.class, &pubsubpb.ModifyAckDeadlineRequest{Subscription: w.Sub, AckIds: w.StaleAck, AckDeadlineSeconds: iv})
		add("CreateSubscription", "dead_letter_policy.max_delivery_attempts", i.class, &pubsubpb.Subscription{Name: w.fresh("subscriptions"), Topic: w.Topic, DeadLetterPolicy: &pubsubpb.DeadLetterPolicy{DeadLetterTopic: w.DLTopic, MaxDeliveryAttempts: iv}})
		add("UpdateSubscription", "dead_letter_policy.max_delivery_attempts", i.class, &pubsubpb.UpdateSubscriptionRequest{Subscription: &pubsubpb.Subscription{Name: w.OrdSub, DeadLetterPolicy: &pubsubpb.DeadLetterPolicy{DeadLetterTopic: w.DLTopic, MaxDeliveryAttempts: iv}}, UpdateMask: &fieldmaskpb.FieldMask{Paths: []string{"dead_letter_policy"}}})
		add("CreateSubscription", "ack_deadline_seconds", i.class, &pubsubpb.Subscription{Name: w.fresh("subscriptions"), Topic: w.Topic, AckDeadlineSeconds: iv})
	}
	// nested / optional blocks
	add("CreateSubscription", "dead_letter_policy", "empty", &pubsubpb.Subscription{Name: w.fresh("subscriptions"), Topic: w.Topic, DeadLetterPolicy: &pubsubpb.DeadLetterPolicy{}})
	add("CreateSubscription", "dead_letter_policy", "attempts-without-topic", &pubsubpb.Subscription{Name: w.fresh("subscriptions"), Topic: w.Topic, DeadLetterPolicy: &pubsubpb.DeadLetterPolicy{MaxDeliveryAttempts: 3}})
	add("CreateSubscription", "expiration_policy", "empty", &pubsubpb.Subscription{Name: w.fresh("subscriptions"), Topic: w.Topic, ExpirationPolicy: &pubsubpb.ExpirationPolicy{}})
	add("CreateSubscription", "retry_policy", "empty", &pubsubpb.Subscription{Name: w.fresh("subscriptions"), Topic: w.Topic, RetryPolicy: &pubsubpb.RetryPolicy{}})
	add("CreateSubscription", "push_config", "empty", &pubsubpb.Subscription{Name: w.fresh("subscriptions"), Topic: w.Topic, PushConfig: &pubsubpb.PushConfig{}})
	add("CreateSubscription", "push_config", "attributes", &pubsubpb.Subscription{Name: w.fresh("subscriptions"), Topic: w.Topic, PushConfig: &pubsubpb.PushConfig{PushEndpoint: "http://127.0.0.1:1/x", Attributes: map[string]string{"x-goog-version": "v1"}}})
	add("CreateSubscription", "push_config", "oidc", &pubsubpb.Subscription{Name: w.fresh("subscriptions"), Topic: w.Topic, PushConfig: &pubsubpb.PushConfig{PushEndpoint: "http://127.0.0.1:1/x", AuthenticationMethod: &pubsubpb.PushConfig_OidcToken_{OidcToken: &pubsubpb.PushConfig_OidcToken{}}}})
	add("CreateSubscription", "push_config", "no-wrapper", &pubsubpb.Subscription{Name: w.fresh("subscriptions"), Topic: w.Topic, PushConfig: &pubsubpb.PushConfig{PushEndpoint: "http://127.0.0.1:1/x", Wrapper: &pubsubpb.PushConfig_NoWrapper_{NoWrapper: &pubsubpb.PushConfig_NoWrapper{}}}})
	add("CreateSubscription", "detached", "true", &pubsubpb.Subscription{Name: w.fresh("subscriptions"), Topic: w.Topic, Detached: true})
	for _, f := range []val{{"garbage", "((("}, {"keyword-only", "AND"}, {"long", strings.Repeat("attributes:a AND ", 2000) + "attributes:a"}, {"nul", "attributes:\x00"}, {"deep", strings.Repeat("(", 200) + "attributes:a" + strings.Repeat(")", 200)}} {
		add("CreateSubscription", "filter", f.class, &pubsubpb.Subscription{Name: w.fresh("subscriptions"), Topic: w.Topic, Filter: f.v.(string)})
		add("UpdateSubscription", "filter", f.class, &pubsubpb.UpdateSubscriptionRequest{Subscription: &pubsubpb.Subscription{Name: w.OrdSub, Filter: f.v.(string)}, UpdateMask: &fieldmaskpb.FieldMask{Paths: []string{"filter"}}})
	}
	// update subscription: body and mask shapes
	add("UpdateSubscription", "subscription", "nil", &pubsubpb.UpdateSubscriptionRequest{UpdateMask: &fieldmaskpb.FieldMask{Paths: []string{"labels"}}})
	for _, path := range []string{"name", "topic", "labels", "expiration_policy", "message_retention_duration", "enable_message_ordering", "retry_policy", "push_config", "filter", "dead_letter_policy", "ack_deadline_seconds", "retain_acked_messages", "detached", "nope", ""} {
		add("UpdateSubscription", "update_mask", "path-"+path+"-with-empty-body", &pubsubpb.UpdateSubscriptionRequest{Subscription: &pubsubpb.Subscription{Name: w.OrdSub}, UpdateMask: &fieldmaskpb.FieldMask{Paths: []string{path}}})
	}
	add("UpdateSubscription", "update_mask", "nil", &pubsubpb.UpdateSubscriptionRequest{Subscription: &pubsubpb.Subscription{Name: w.OrdSub, Labels: map[string]string{"q": "r"}}})
	add("UpdateSubscription", "update_mask", "repeated", &pubsubpb.UpdateSubscriptionRequest{Subscription: &pubsubpb.Subscription{Name: w.OrdSub, Labels: map[string]string{"q": "r"}}, UpdateMask: &fieldmaskpb.FieldMask{Paths: []string{"labels", "labels", "filter", "filter"}}})
	add("UpdateSubscription", "update_mask", "valid-then-invalid", &pubsubpb.UpdateSubscriptionRequest{Subscription: &pubsubpb.Subscription{Name: w.OrdSub, Labels: map[string]string{"q": "changed"}}, UpdateMask: &fieldmaskpb.FieldMask{Paths: []string{"labels", "nope"}}})
	add("ModifyPushConfig", "push_config", "nil", &pubsubpb.ModifyPushConfigRequest{Subscription: w.OrdSub})
	add("ModifyPushConfig", "push_config", "bad-attribute", &pubsubpb.ModifyPushConfigRequest{Subscription: w.OrdSub, PushConfig: &pubsubpb.PushConfig{Attributes: map[string]string{"x": "y"}}})
	add("ModifyPushConfig", "push_config", "oidc", &pubsubpb.ModifyPushConfigRequest{Subscription: w.OrdSub, PushConfig: &pubsubpb.PushConfig{AuthenticationMethod: &pubsubpb.PushConfig_OidcToken_{OidcToken: &pubsubpb.PushConfig_OidcToken{}}}})
	// ack ids
	for _, a := range ackLists(w) {
		ids := a.v.([]string)
		if a.class != "live" && a.class != "duplicate" && a.class != "mixed-garbage" {
			add("Acknowledge", "ack_ids", a.class, &pubsubpb.AcknowledgeRequest{Subscription: w.Sub, AckIds: ids})
		}
		add("ModifyAckDeadline", "ack_ids", a.class, &pubsubpb.ModifyAckDeadlineRequest{Subscription: w.Sub, AckIds: ids, AckDeadlineSeconds: 30})
	}
	add("Acknowledge", "ack_ids", "mixed-garbage", &pubsubpb.AcknowledgeRequest{Subscription: w.Sub, AckIds: append(append([]string{}, w.LiveAck...), "zzz")})
	// seek targets
	add("Seek", "target", "nil", &pubsubpb.SeekRequest{Subscription: w.OrdSub})
	add("Seek", "time", "nil-timestamp", &pubsubpb.SeekRequest{Subscription: w.OrdSub, Target: &pubsubpb.SeekRequest_Time{}})
	add("Seek", "time", "year-1", &pubsubpb.SeekRequest{Subscription: w.OrdSub, Target: &pubsubpb.SeekRequest_Time{Time: timestamppb.New(time.Date(1, 1, 1, 0, 0, 0, 0, time.UTC))}})
	add("Seek", "time", "year-9999", &pubsubpb.SeekRequest{Subscription: w.OrdSub, Target: &pubsubpb.SeekRequest_Time{Time: timestamppb.New(time.Date(9999, 12, 31, 23, 59, 59, 0, time.UTC))}})
	add("Seek", "time", "out-of-range", &pubsubpb.SeekRequest{Subscription: w.OrdSub, Target: &pubsubpb.SeekRequest_Time{Time: &timestamppb.Timestamp{Seconds: math.MaxInt64, Nanos: -1}}})
	add("Seek", "time", "epoch", &pubsubpb.SeekRequest{Subscription: w.OrdSub, Target: &pubsubpb.SeekRequest_Time{Time: &timestamppb.Timestamp{}}})
	add("CreateSnapshot", "labels", "weird", &pubsubpb.CreateSnapshotRequest{Name: w.fresh("snapshots"), Subscription: w.Sub, Labels: map[string]string{"": "\x00"}})
	return out
}

// Random draws seeded combinations: a base request with two or three fields
// replaced by boundary values.
func Random(w *World, r *rand.Rand, n int) []Req {
	base := Unary(w)
	var out []Req
	for i := 0; i < n; i++ {
		a := base[r.Intn(len(base))]
		b := base[r.Intn(len(base))]
		if a.RPC != b.RPC {
			continue
		}
		m := proto.Clone(a.Msg)
		// overlay the set fields of b onto a (proto.Merge keeps a's other fields)
		func() {
			defer func() { _ = recover() }()
			proto.Merge(m, b.Msg)
		}()
		out = append(out, Req{RPC: a.RPC, Field: a.Field + "+" + b.Field, Class: a.Class + "+" + b.Class, Msg: m})
	}
	return out
}
